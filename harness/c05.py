"""C05 - backend tables and columns track the schema through every migration.

Spec: spec/SchemaDDL.tla - abstract schema, one action per DDL command kind
and StorageOf(schema): the storage PostgreSQL must hold.  TLC supplies
histories of accepted commands (exhaustive on the small instance, simulated
on the 4-type / 3-pointer instance) with the expected storage after every
command.  Each command is rendered as DDL and compiled by the real server
compiler; the dbops table commands it emits are captured (wrappers around
CreateTable / AlterTable / DropTable .generate, installed in the harness
process) and interpreted by a small catalog.  After every command:
  1. catalog (mapped through the real schema's object ids) = StorageOf(state)
  2. catalog = what the query compiler will address for the real schema
     (types.get_pointer_storage_info / has_table / get_backend_name), and
     nothing else; no command touches a missing table/column or creates an
     existing one
  3. the real schema, abstracted, = the model state (keeps 1 honest).
"""
from __future__ import annotations

import json
import multiprocessing as mp
import random

import lib
import schema_common as SC


def parse_rows(output):
    rows = []
    for line in output.splitlines():
        if not line.startswith('"OUT '):
            continue
        txt = line[5:-1].replace('\\"', '"')
        hist, last, sch, storage = lib.fast_parse_tla(txt)
        rows.append((hist, last, sch, storage))
    return rows


def behaviours(rows):
    """group OUT rows into behaviours: map history -> (sch, storage); the
    maximal histories are the behaviours, every prefix is present"""
    ok = {h: (s, st) for h, l, s, st in rows if l == 'ok'}
    # prefix-closed: every command of the history was accepted by the model
    by = {}
    for h in sorted(ok, key=len):
        if len(h) == 0 or h[:-1] in by or len(h) == 1:
            if len(h) <= 1 or h[:-1] in by:
                by[h] = ok[h]
    parents = {h[:-1] for h in by if h}
    maximal = [h for h in by if h not in parents]
    return by, maximal


def run_history(hist, by):
    st = SC.S()
    ctx = SC.new_ctx()
    cat = SC.Catalog()
    bad = []
    empty = {}
    prev_state = None
    for n in range(1, len(hist) + 1):
        pre = by.get(hist[:n - 1])
        sch_before = pre[0] if pre else None
        if sch_before is None:
            sch_before = {t: dict(ex=False, base='-', ptrs={}) for t in 'ABCD'}
        op = hist[n - 1]
        text = SC.render_ddl(op, sch_before)
        SC.CAPTURE.clear()
        try:
            SC.compile_stmt(ctx, text)
        except Exception as e:
            # the model accepted a command the real compiler refuses: the
            # history cannot be continued; not a verdict for C05
            return n - 1, bad, f'`{text}` refused: {type(e).__name__}: {str(e)[:120]}'
        problems = cat.apply(list(SC.CAPTURE))
        for p in problems:
            bad.append(f'after `{text}`: emitted table command is inconsistent '
                       f'with the storage that exists: {p}')
        schema = SC.user_schema(ctx)
        exp_sch, exp_storage = by[hist[:n]]
        # 3. model state = real schema
        real_abs = SC.abstract(schema)
        if real_abs != SC.model_state(exp_sch):
            return n - 1, bad, (f'`{text}`: the real schema differs from the '
                                f'model state (renderer / model mismatch): '
                                f'{_dd(real_abs, SC.model_state(exp_sch))}')
        # 1. catalog = StorageOf(state)
        items, unknown = SC.storage_of_catalog(cat, schema)
        for u in unknown:
            bad.append(f'after `{text}`: orphan storage: {u}')
        want = {tuple(x) for x in exp_storage}
        if items != want:
            extra = sorted(items - want)[:4]
            missing = sorted(want - items)[:4]
            bad.append(f'after `{text}`: storage created-and-not-dropped differs '
                       f'from what the schema needs: extra={extra} missing={missing}')
        # 2. catalog = what the query compiler addresses
        qc = SC.storage_expected_by_query_compiler(schema)
        for tname, cols in qc.items():
            if tname not in cat.tables:
                bad.append(f'after `{text}`: the query compiler addresses table '
                           f'{tname[1]} which was never created or was dropped')
            else:
                miss = cols - cat.tables[tname]
                if miss:
                    bad.append(f'after `{text}`: the query compiler addresses '
                               f'column(s) {sorted(miss)} of table {tname[1]} '
                               f'which do not exist')
        for tname in cat.tables:
            if tname not in qc:
                bad.append(f'after `{text}`: table {tname[1]} exists but nothing '
                           f'in the schema uses it')
        if bad:
            return n, bad, None
    return len(hist), bad, None


def _dd(a, b):
    out = []
    for t in sorted(set(a) | set(b)):
        if a.get(t) != b.get(t):
            out.append(f'{t}: real={a.get(t)} model={b.get(t)}')
    return '; '.join(out)[:600]


def _job(args):
    hists, by = args
    SC.S()
    out, incon = [], []
    steps = 0
    for h in hists:
        n, bad, why = run_history(h, by)
        steps += n
        if bad:
            out.append(dict(history=[_js(o) for o in h[:n]],
                            ddl=_ddl_text(h[:n], by), failed=bad[:4]))
        elif why:
            incon.append(why)
    return len(hists), steps, out, incon


def _ddl_text(hist, by):
    out = []
    for n in range(1, len(hist) + 1):
        pre = by.get(hist[:n - 1])
        sb = pre[0] if pre else {t: dict(ex=False, base='-', ptrs={}) for t in 'ABCD'}
        out.append(SC.render_ddl(hist[n - 1], sb))
    return out


def _js(x):
    if isinstance(x, dict):
        return {k: _js(v) for k, v in x.items()}
    if isinstance(x, (tuple, list)):
        return [_js(y) for y in x]
    if isinstance(x, frozenset):
        return sorted(_js(y) for y in x)
    return x


def sub(by, hists):
    need = {}
    for h in hists:
        for n in range(len(h) + 1):
            if h[:n] in by:
                need[h[:n]] = by[h[:n]]
    return need


def report(rep, vs):
    for v in vs:
        rep.violation('ddl:' + json.dumps(v['ddl']),
                      f"DDL history {v['ddl']}: " + '; '.join(v['failed'][:2]), v)


def replay(path, rep):
    print(json.dumps(json.load(open(path))['replay'], indent=1)[:3000])


def run(tier, seed, rep):
    quick = tier == 'quick'
    SC.S()
    mc = {}
    r = lib.run_tlc('SchemaDDL', 'SchemaDDL_2.cfg', timeout=1800, deadlock=False)
    if r.violated:
        raise lib.MachineryError(f'SchemaDDL_2: {r.violated}\n{r.output[-2000:]}')
    mc['SchemaDDL_2.cfg'] = r.summary()
    by, maximal = behaviours(parse_rows(r.output))
    rs = lib.run_tlc('SchemaDDL', 'SchemaDDL_sim.cfg', workers=8, timeout=1800,
                     simulate=f'num={5 if quick else 300}', depth=14, seed=seed,
                     deadlock=False)
    by2, max2 = behaviours(parse_rows(rs.output))
    rnd = random.Random(seed)
    rnd.shuffle(maximal)
    maximal = maximal[:150 if quick else 3000]
    # simulation prints every candidate successor: keep a sample, longest first
    max2.sort(key=lambda h: (-len(h), rnd.random()))
    max2 = max2[:60 if quick else 2500]
    nh = steps = 0
    incon = []
    with mp.Pool(lib.NCPU) as pool:
        jobs = []
        for src_by, hs in ((by, maximal), (by2, max2)):
            chunks = [hs[i::lib.NCPU * 2] for i in range(lib.NCPU * 2)]
            jobs += [(ch, sub(src_by, ch)) for ch in chunks if ch]
        for n, s_, out, inc in pool.imap_unordered(_job, jobs):
            nh += n
            steps += s_
            incon += inc
            report(rep, out)
    inc_kinds = {}
    for w in incon:
        k = w.split('`')[1].split(' ')[0:4]
        inc_kinds[' '.join(k)] = inc_kinds.get(' '.join(k), 0) + 1
    samples = [dict(history=[_js(o) for o in (max2[0] if max2 else maximal[0])][:8])]
    cov = dict(
        states=r.distinct, transitions=r.generated,
        traces_validated_against_impl=nh, samples=samples, model_checking=mc,
        histories=nh, ddl_commands_executed=steps,
        inconclusive_histories=len(incon),
        inconclusive_examples=incon[:5],
        evaluations=steps, distinct_nontrivial=nh,
        rule='one case = one history of accepted DDL commands generated by TLC '
             'from SchemaDDL.tla, executed command by command on the real '
             'compiler with the three comparisons after every command; a '
             'history whose command the real compiler refuses is cut there '
             '(inconclusive, counted)')
    return dict(level='model_checking', coverage=cov, assumptions=[
        'table commands are observed at dbops level (CreateTable / AlterTable '
        '/ DropTable and their column fragments); SQL text is not executed',
        'column types, constraints, triggers and views are not compared',
        lib.SHIM_TRUST])
