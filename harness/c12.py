"""C12 - see sem_common.py (spec/EdgeQLSem.tla)."""
import sem_common as SEM


def run(tier, seed, rep):
    return SEM.run('C12', tier, seed, rep)


def replay(path, rep):
    return SEM.replay(path, rep)
