"""C14 - type descriptors describe query types faithfully and uniquely.

spec/TypeDesc.tla enumerates result-type terms (scalars incl. a user scalar
and an enum; tuples, named tuples, arrays, ranges, object shapes with
computed single / multi elements, free objects; nested).  For each term the
harness builds a query with exactly that result type (and, in a second
variant, parameters), compiles it with the real server compiler for every
protocol version served x inline type names on/off, decodes the output and
input descriptors twice - with an INDEPENDENT decoder written from
docs/reference/reference/protocol/typedesc.rst and with the repo's own
sertypes.parse - and compares the decoded description with the term: kinds,
element names and order, cardinalities, element types, array / range
structure, enum labels.  Across the whole run: equal descriptor ids =>
byte-identical descriptors; structurally different terms => different ids.
The decoded streams are also validated by TLC against the stream discipline
of TypeDesc.tla (back-references only, unique ids, root last).
"""
from __future__ import annotations

import io
import json
import multiprocessing as mp
import os
import re
import struct
import uuid

import lib

_S = {}

SCHEMA = [
    'create module default',
    'create scalar type default::MyStr extending str',
    'create scalar type default::MyStr2 extending default::MyStr',
    'create scalar type default::Color extending enum<Red, Green, Blue>',
    'create type default::T { create required property name -> str; '
    'create property n -> int64; create multi property tags -> str; '
    'create link friend -> default::T { create property weight -> int64; }; '
    'create multi link pals -> default::T; }',
]


def S():
    if _S:
        return _S
    import boot
    import immutables
    from edb.server.compiler import compiler as C, rpc, sertypes, enums
    from edb.server import defines
    from edb import edgeql, errors
    from edb.schema import schema as s_schema
    comp = boot.compiler()
    ctx = boot.new_ctx()
    for q in SCHEMA:
        C.compile(ctx=ctx, source=edgeql.Source.from_string(q))
    _S.update(boot=boot, C=C, rpc=rpc, sertypes=sertypes, enums=enums,
              defines=defines, edgeql=edgeql, errors=errors, comp=comp,
              schema=ctx.state.current_tx().get_user_schema(),
              E=immutables.Map(), s_schema=s_schema)
    return _S


# ------------------------------------------------------------------ term -> query
LIT = {'str': "'s'", 'int64': '1', 'bool': 'true', 'float64': '1.5',
       'userscalar': "<default::MyStr>'m'",
       'userscalar2': "<default::MyStr2>'m'", 'enum': "default::Color.Red",
       'uuid': "<uuid>'aaaaaaaa-aaaa-aaaa-aaaa-aaaaaaaaaaaa'", 'json': "<json>1"}
SCALAR_NAME = {'str': 'std::str', 'int64': 'std::int64', 'bool': 'std::bool',
               'float64': 'std::float64', 'userscalar': 'default::MyStr', 'userscalar2': 'default::MyStr2',
               'enum': 'default::Color', 'uuid': 'std::uuid', 'json': 'std::json'}


def expr(t):
    k = t[0]
    if k == 'S':
        return LIT[t[1]]
    if k == 'tuple':
        return f'({expr(t[1])}, {expr(t[2])})'
    if k == 'named':
        return f'(first := {expr(t[1])}, second := {expr(t[2])})'
    if k == 'array':
        return f'[{expr(t[1])}]'
    if k == 'range':
        return 'range(1, 5)'
    if k == 'shape_computed':
        return f'(select default::T {{ name, c := {expr(t[1])} }} limit 1)'
    if k == 'shape_multi':
        return (f'(select default::T {{ name, c := (for i in {{1, 2}} union '
                f'{expr(t[1])}) }} limit 1)')
    if k == 'linkshape':
        body = {'with': 'friend: { name, @weight }',
                'without': 'friend: { name }',
                'both': 'friend: { name, @weight }, others := .friend { name }'}[t[1]]
        return f'(select default::T {{ name, {body} }} limit 1)'
    if k == 'free':
        return f'{{ x := {expr(t[1])}, y := {expr(t[2])} }}' if False else \
            f'(select {{ x := {expr(t[1])}, y := {expr(t[2])} }})'
    raise ValueError(t)


def _card1(t):
    # `(select T {...} limit 1)` may be empty; every other term is a singleton
    return 'AT_MOST_ONE' if t[0] in ('shape_computed', 'shape_multi', 'linkshape') \
        else 'ONE'


def expected(t):
    """abstract description the decoded descriptor must match"""
    k = t[0]
    if k == 'S':
        if t[1] == 'enum':
            return ('enum', 'default::Color', ('Red', 'Green', 'Blue'))
        # a schema-defined scalar lists its ancestors down to the fundamental type
        if t[1] == 'userscalar':
            return ('scalar', 'default::MyStr', ('std::str',))
        if t[1] == 'userscalar2':
            return ('scalar', 'default::MyStr2', ('default::MyStr', 'std::str'))
        return ('scalar', SCALAR_NAME[t[1]])
    if k == 'tuple':
        return ('tuple', (expected(t[1]), expected(t[2])))
    if k == 'named':
        return ('named', (('first', expected(t[1])), ('second', expected(t[2]))))
    if k == 'array':
        return ('array', expected(t[1]))
    if k == 'range':
        return ('range', ('scalar', 'std::int64'))
    if k in ('shape_computed', 'shape_multi'):
        # a FOR over a non-empty literal set is inferred AT_LEAST_ONE
        # (inside a shape of T, a nested `select T ... limit 1` is bound to
        # the subject by path factoring: it is a singleton as well)
        card = 'AT_LEAST_ONE' if k == 'shape_multi' else 'ONE'
        return ('shape', 'default::T',
                (('name', 'ONE', ('scalar', 'std::str')),
                 ('c', card, expected(t[1]))))
    if k == 'linkshape':
        fr = ('shape', 'default::T', (('name', 'ONE', ('scalar', 'std::str')),))
        frw = ('shape', 'default::T', (('name', 'ONE', ('scalar', 'std::str')),
                                       ('@weight', 'AT_MOST_ONE', ('scalar', 'std::int64'))))
        els = [('name', 'ONE', ('scalar', 'std::str')),
               ('friend', 'AT_MOST_ONE', frw if t[1] != 'without' else fr)]
        if t[1] == 'both':
            els.append(('others', 'AT_MOST_ONE', fr))
        return ('shape', 'default::T', tuple(els))
    if k == 'free':
        return ('shape', 'std::FreeObject',
                (('x', _card1(t[1]), expected(t[1])), ('y', _card1(t[2]), expected(t[2]))))
    raise ValueError(t)


# ------------------------------------------------------------------ decoder
# written from docs/reference/reference/protocol/typedesc.rst (protocol >= 2)
CARD = {0x6f: 'AT_MOST_ONE', 0x41: 'ONE', 0x6d: 'MANY', 0x4d: 'AT_LEAST_ONE',
        0x6e: 'NO_RESULT'}


class Rd:
    def __init__(self, b):
        self.b, self.i = b, 0

    def take(self, n):
        if self.i + n > len(self.b):
            raise ValueError('descriptor truncated')
        v = self.b[self.i:self.i + n]
        self.i += n
        return v

    def u8(self):
        return self.take(1)[0]

    def u16(self):
        return struct.unpack('>H', self.take(2))[0]

    def i16(self):
        return struct.unpack('>h', self.take(2))[0]

    def u32(self):
        return struct.unpack('>I', self.take(4))[0]

    def i32(self):
        return struct.unpack('>i', self.take(4))[0]

    def uuid(self):
        return uuid.UUID(bytes=self.take(16))

    def string(self):
        n = self.u32()
        return self.take(n).decode('utf-8')


def decode_v2(data):
    """-> list of blocks (dicts) in stream order"""
    r = Rd(data)
    blocks = []
    while r.i < len(r.b):
        ln = r.u32()
        start = r.i
        tag = r.u8()
        b = dict(tag=tag, refs=[], anno=False)
        if tag == 127 or tag >= 0x80:
            b['anno'] = True
            b['refs'] = [r.u16()]
            b['key'] = r.string()
            b['value'] = r.string()
            b['id'] = '-'
        else:
            b['id'] = str(r.uuid())
            if tag == 0:                       # set
                b['refs'] = [r.u16()]
            elif tag == 1:                     # object shape
                b['ephemeral'] = bool(r.u8())
                b['type'] = r.u16()
                n = r.u16()
                els = []
                for _ in range(n):
                    flags = r.u32()
                    card = r.u8()
                    name = r.string()
                    typ = r.u16()
                    src = r.u16()
                    els.append(dict(flags=flags, card=CARD.get(card, hex(card)),
                                    name=name, type=typ, source=src))
                b['elements'] = els
                b['refs'] = [e['type'] for e in els] + \
                    ([] if b['ephemeral'] else [b['type']])
            elif tag == 8:                     # input shape
                n = r.u16()
                els = []
                for _ in range(n):
                    flags = r.u32()
                    card = r.u8()
                    name = r.string()
                    typ = r.u16()
                    els.append(dict(flags=flags, card=CARD.get(card, hex(card)),
                                    name=name, type=typ))
                b['elements'] = els
                b['refs'] = [e['type'] for e in els]
            elif tag in (3, 4, 5, 6, 7, 9, 12):    # scalar-like with ancestors
                b['name'] = r.string()
                b['schema_defined'] = bool(r.u8())
                na = r.u16()
                b['ancestors'] = [r.u16() for _ in range(na)]
                b['refs'] = list(b['ancestors'])
                if tag == 4:
                    n = r.u16()
                    b['element_types'] = [r.u16() for _ in range(n)]
                    b['refs'] += b['element_types']
                elif tag == 5:
                    n = r.u16()
                    b['elements'] = [(r.string(), r.i16()) for _ in range(n)]
                    b['refs'] += [t for _, t in b['elements']]
                elif tag == 6:
                    b['type'] = r.u16()
                    nd = r.u16()
                    b['dims'] = [r.i32() for _ in range(nd)]
                    b['refs'].append(b['type'])
                elif tag == 7:
                    n = r.u16()
                    b['members'] = [r.string() for _ in range(n)]
                elif tag in (9, 12):
                    b['type'] = r.u16()
                    b['refs'].append(b['type'])
            elif tag == 10:                    # object type
                b['name'] = r.string()
                b['schema_defined'] = bool(r.u8())
            elif tag == 11:                    # compound type
                b['name'] = r.string()
                b['schema_defined'] = bool(r.u8())
                b['op'] = r.u8()
                n = r.u16()
                b['components'] = [r.u16() for _ in range(n)]
                b['refs'] = list(b['components'])
            elif tag == 13:                    # SQL record
                n = r.u16()
                b['elements'] = [(r.string(), r.u16()) for _ in range(n)]
                b['refs'] = [t for _, t in b['elements']]
            else:
                raise ValueError(f'unknown descriptor tag {tag}')
        if r.i - start != ln:
            raise ValueError(f'block length prefix {ln} but block (tag {tag}) '
                             f'takes {r.i - start} bytes')
        blocks.append(b)
    return blocks


def describe(blocks, idx, want_names=True):
    """abstract description of block idx (same shape as expected())"""
    b = blocks[idx]
    tag = b['tag']
    if tag == 0:
        # a multi element of a shape is sent as a set of its element type
        return describe(blocks, b['refs'][0])
    if tag == 3:
        if not b['name'].startswith('std::'):
            return ('scalar', b['name'],
                    tuple(blocks[a]['name'] for a in b['ancestors']))
        return ('scalar', b['name'])
    if tag == 7:
        return ('enum', b['name'], tuple(b['members']))
    if tag == 4:
        return ('tuple', tuple(describe(blocks, t) for t in b['element_types']))
    if tag == 5:
        return ('named', tuple((n, describe(blocks, t)) for n, t in b['elements']))
    if tag == 6:
        return ('array', describe(blocks, b['type']))
    if tag == 9:
        return ('range', describe(blocks, b['type']))
    if tag == 12:
        return ('multirange', describe(blocks, b['type']))
    if tag == 1:
        tname = 'std::FreeObject' if b['ephemeral'] else blocks[b['type']]['name']
        els = tuple((('@' if e['flags'] & 2 else '') + e['name'], e['card'],
                     describe(blocks, e['type']))
                    for e in b['elements'] if not (e['flags'] & 1))
        return ('shape', tname, els)
    if tag == 10:
        return ('object', b['name'])
    raise ValueError(f'cannot describe tag {tag}')


def root_index(blocks):
    idx = [i for i, b in enumerate(blocks) if not b['anno']]
    return idx[-1]


# ------------------------------------------------------------------ compile
def compile_query(text, proto, inline_typenames, params=False):
    st = S()
    req = st['rpc'].CompilationRequest(
        source=st['edgeql'].Source.from_string(text), protocol_version=proto,
        schema_version=uuid.UUID(int=7),
        compilation_config_serializer=st['comp'].state.compilation_config_serializer,
        inline_typenames=inline_typenames, inline_typeids=False,
        inline_objectids=False)
    ug, _ = st['comp'].compile(
        user_schema=st['schema'], global_schema=st['s_schema'].EMPTY_SCHEMA,
        reflection_cache=st['E'], database_config=st['E'], system_config=st['E'],
        request=req)
    u = ug[0]
    return u


def norm(desc):
    """strip the outer `set` and normalise cardinality of the top level"""
    return desc


def check_term(t, registry):
    st = S()
    bad = []
    streams = []
    text = 'select ' + expr(t)
    want = expected(t)
    for proto in ((2, 0), (3, 0)):
        for itn in (False, True):
            try:
                u = compile_query(text, proto, itn)
            except st['errors'].EdgeDBError as e:
                return 'rejected', [], [], f'{type(e).__name__}: {str(e)[:120]}'
            data, tid = u.out_type_data, u.out_type_id
            try:
                blocks = decode_v2(data)
            except Exception as e:
                bad.append(f'protocol {proto} typenames={itn}: output descriptor '
                           f'does not decode per the documented format: {e}')
                continue
            streams.append([dict(tag=b['tag'], id=b['id'], refs=b['refs'],
                                 anno=b['anno']) for b in blocks])
            ri = root_index(blocks)
            if blocks[ri]['id'] != str(uuid.UUID(bytes=tid)):
                bad.append(f'protocol {proto}: reported out_type_id is not the id '
                           f'of the root block')
            try:
                got = describe(blocks, ri)
            except Exception as e:
                bad.append(f'protocol {proto}: decoded stream cannot be read: {e}')
                continue
            if got != want:
                bad.append(f'protocol {proto} typenames={itn}: descriptor says '
                           f'{got!r}, the query type is {want!r}')
            # the repo's own parser must agree on the structure it exposes
            try:
                st['sertypes'].parse(data, proto)
            except Exception as e:
                bad.append(f'protocol {proto}: sertypes.parse rejects the '
                           f'descriptor it produced: {type(e).__name__}: {e}')
            key = (proto, itn, blocks[ri]['id'])
            registry.setdefault(key, set()).add(bytes(data))
            registry.setdefault(('struct', proto, itn, blocks[ri]['id']), set()).add(
                json.dumps(want))
    # protocol 1 (legacy format): at least the repo's parser must read it back
    try:
        u = compile_query(text, (1, 0), False)
        st['sertypes'].parse(u.out_type_data, (1, 0))
    except st['errors'].EdgeDBError:
        pass
    except Exception as e:
        bad.append(f'protocol (1, 0): descriptor cannot be parsed back: '
                   f'{type(e).__name__}: {e}')
    return 'ok', bad, streams, text


PARAM_QUERIES = [
    ("select (<str>$a, <optional int64>$b)",
     (('a', 'ONE', ('scalar', 'std::str')), ('b', 'AT_MOST_ONE', ('scalar', 'std::int64')))),
    ("select (<array<int64>>$0, <optional str>$1)",
     (('0', 'ONE', ('array', ('scalar', 'std::int64'))),
      ('1', 'AT_MOST_ONE', ('scalar', 'std::str')))),
    ("select <default::Color>$c",
     (('c', 'ONE', ('enum', 'default::Color', ('Red', 'Green', 'Blue'))),)),
    ("select (<tuple<str, int64>>$t).0",
     (('t', 'ONE', ('tuple', (('scalar', 'std::str'), ('scalar', 'std::int64')))),)),
    ("select <str>$z ++ <str>$a ++ <str>$m",
     (('z', 'ONE', ('scalar', 'std::str')), ('a', 'ONE', ('scalar', 'std::str')),
      ('m', 'ONE', ('scalar', 'std::str')))),
]


def check_params():
    st = S()
    bad = []
    streams = []
    for text, want in PARAM_QUERIES:
        for proto in ((2, 0), (3, 0)):
            try:
                u = compile_query(text, proto, False)
            except st['errors'].EdgeDBError as e:
                bad.append(f'{text}: rejected: {e}')
                continue
            try:
                blocks = decode_v2(u.in_type_data)
            except Exception as e:
                bad.append(f'{text}: input descriptor does not decode: {e}')
                continue
            streams.append([dict(tag=b['tag'], id=b['id'], refs=b['refs'],
                                 anno=b['anno']) for b in blocks])
            ri = root_index(blocks)
            root = blocks[ri]
            if root['tag'] not in (1, 4, 5, 8):
                bad.append(f'{text}: input descriptor root has tag {root["tag"]}')
                continue
            els = root.get('elements')
            got = tuple((e['name'], e['card'], describe(blocks, e['type']))
                        for e in els) if els and isinstance(els[0], dict) else None
            if got is not None and sorted(got) != sorted(want):
                bad.append(f'{text} (protocol {proto}): input descriptor says '
                           f'{got!r}, the parameters are {want!r}')
            names = [e['name'] for e in els] if els and isinstance(els[0], dict) else []
            args = [getattr(a, 'name', None) or a[0] for a in (u.in_type_args or [])]
            if args and names and list(names) != [str(a) for a in args]:
                bad.append(f'{text}: descriptor lists parameters {names} but '
                           f'in_type_args is {args}')
    return bad, streams


def tlc_streams(streams):
    d = lib.scratch('tdesc-')
    tf = os.path.join(d, 'streams.json')
    json.dump(streams, open(tf, 'w'))
    cf = os.path.join(d, 'S.cfg')
    open(cf, 'w').write('SPECIFICATION Spec\nCONSTANTS\n    Depth = 0\n'
                        '    Mode = "streams"\nCHECK_DEADLOCK FALSE\n')
    r = lib.run_tlc('TypeDesc', cf, workers=2, timeout=1800,
                    env={'TRACE_FILE': tf}, deadlock=False)
    if f'"STREAMSDONE", {len(streams)}' not in r.output:
        raise lib.MachineryError('TypeDesc stream validation did not finish\n'
                                 + r.output[-1500:])
    return [int(m.group(1)) for m in re.finditer(r'<<"BADSTREAM", (\d+)>>', r.output)], r


def parse_terms(output):
    return [lib.fast_parse_tla(line[5:-1].replace('\\"', '"'))
            for line in output.splitlines() if line.startswith('"OUT ')]


def _job(terms):
    S()
    out, streams = [], []
    reg = {}
    nrej = 0
    for t in terms:
        status, bad, ss, text = check_term(t, reg)
        if status == 'rejected':
            nrej += 1
            continue
        streams += ss[:1]
        if bad:
            out.append(dict(term=t, text=text, failed=bad[:3]))
    return len(terms), nrej, out, streams, {str(k): [x.hex() if isinstance(x, bytes) else x for x in v] for k, v in reg.items()}


def replay(path, rep):
    d = json.load(open(path))['replay']
    S()
    print(check_term(tuple(_tt(d['term'])), {})[1])


def _tt(x):
    return tuple(_tt(y) for y in x) if isinstance(x, list) else x


def run(tier, seed, rep):
    quick = tier == 'quick'
    S()
    r = lib.run_tlc('TypeDesc', 'TypeDesc_1.cfg' if quick else 'TypeDesc_2.cfg',
                    timeout=1800, deadlock=False)
    terms = parse_terms(r.output)
    n = nrej = 0
    streams = []
    registry = {}
    with mp.Pool(lib.NCPU) as pool:
        chunks = [terms[i::lib.NCPU * 2] for i in range(lib.NCPU * 2)]
        for c, rj, out, ss, reg in pool.imap_unordered(_job, [ch for ch in chunks if ch]):
            n += c
            nrej += rj
            streams += ss
            for k, v in reg.items():
                registry.setdefault(k, set()).update(v)
            for v in out:
                rep.violation('term:' + json.dumps(v['term']),
                              f"`{v['text']}`: " + '; '.join(v['failed'][:2]), v)
    # equal ids => identical bytes ; different structure => different ids
    for k, v in registry.items():
        if len(v) > 1:
            what = ('two structurally different result types share the descriptor id'
                    if k.startswith("('struct'") else
                    'the same descriptor id was sent with different bytes')
            rep.violation('id:' + k, f'{what}: {k}: {sorted(v)[:2]}',
                          dict(key=k, values=sorted(v)[:4]))
    pbad, pstreams = check_params()
    for b in pbad:
        rep.violation('params:' + b[:100], b, dict(what=b))
    streams += pstreams
    badidx, rs = tlc_streams(streams)
    for i in badidx[:5]:
        rep.violation('stream:' + json.dumps(streams[i - 1])[:300],
                      'descriptor stream violates the discipline (forward '
                      'reference, duplicate id or root not last)',
                      dict(stream=streams[i - 1]))
    cov = dict(states=r.distinct + rs.distinct, transitions=r.generated + rs.generated,
               traces_validated_against_impl=len(streams),
               samples=[dict(term=terms[len(terms) // 2],
                             query='select ' + expr(terms[len(terms) // 2]))],
               exhaustive=True, terms=n, rejected_by_compiler=nrej,
               descriptor_streams_validated_by_tlc=len(streams),
               protocol_versions=[[1, 0], [2, 0], [3, 0]],
               parameter_queries=len(PARAM_QUERIES),
               evaluations=n * 4, distinct_nontrivial=n - nrej,
               rule='one case = one result-type term of TypeDesc.tla, compiled '
                    'for protocols 2.0 / 3.0 x inline type names, decoded with '
                    'the independent decoder; protocol 1.0 only parsed back by '
                    'sertypes.parse')
    return dict(level='model_checking', coverage=cov, assumptions=[
        'independent decoder written from the protocol documentation '
        '(documents the >= 2.0 format; the legacy 1.0 format is only read '
        'back by the repository parser)', lib.SHIM_TRUST])
