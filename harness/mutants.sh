#!/bin/sh
# usage: mutants.sh <check-id> <tier> <seeded-dir>...   : apply each seeded patch to /repo, run the check, undo
id=$1; tier=$2; shift 2
for m in "$@"; do
  git -C /repo apply /verif/seeded/$m/patch.diff || { echo "== $m: patch does not apply"; continue; }
  out=$(timeout 3000 /verif/check $id --tier $tier 2>&1); rc=$?
  git -C /repo checkout -- .
  echo "== $m on $id: rc=$rc viol=$(echo "$out" | grep -c '^VIOLATION') drift=$(echo "$out" | grep -c '^SPEC-DRIFT')"
  echo "$out" | grep "what:\|SPEC-DRIFT\|MACHINERY" | head -3 | cut -c1-300
done
