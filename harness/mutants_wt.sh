#!/bin/sh
# usage: mutants_wt.sh <check-id> <tier> <seeded-dir>...
# like mutants.sh but in a scratch worktree of /repo (outside /repo and /verif),
# with its own cache and output directory, so /repo and the evidence are untouched
id=$1; tier=$2; shift 2
W=${MUT_DIR:-/tmp/mut-$id}
rm -rf $W; mkdir -p $W/out/evidence $W/out/replays
git -C /repo worktree add -q --detach $W/repo HEAD || exit 2
for m in "$@"; do
  git -C $W/repo apply /verif/seeded/$m/patch.diff || { echo "== $m: patch does not apply"; continue; }
  out=$(VERIF_REPO=$W/repo VERIF_CACHE=$W/cache VERIF_OUT=$W/out timeout 3000 /verif/check $id --tier $tier 2>&1); rc=$?
  git -C $W/repo checkout -- .
  echo "== $m on $id: rc=$rc viol=$(echo "$out" | grep -c '^VIOLATION') drift=$(echo "$out" | grep -c '^SPEC-DRIFT')"
  echo "$out" | grep "what:\|SPEC-DRIFT\|MACHINERY" | head -3 | cut -c1-300
done
git -C /repo worktree remove --force $W/repo; rm -rf $W
