"""./check driver (see DESIGN.md section 2)."""
from __future__ import annotations

import argparse
import importlib
import os
import sys
import time
import traceback

HERE = os.path.dirname(os.path.abspath(__file__))
sys.path.insert(0, HERE)
sys.path.insert(0, os.path.join(os.path.dirname(HERE), 'shim'))

import lib  # noqa: E402

lib.install_fastarena()


def main():
    ap = argparse.ArgumentParser()
    ap.add_argument('pid', nargs='?')
    ap.add_argument('--tier', default=os.environ.get('VERIF_TIER', 'quick'),
                    choices=['quick', 'thorough'])
    ap.add_argument('--setup', action='store_true')
    ap.add_argument('--replay')
    ap.add_argument('--selftest', action='store_true')
    args = ap.parse_args()
    seed = lib.seed_from_env()
    try:
        if args.setup:
            import setup
            return setup.main()
        if not args.pid:
            ap.error('property id required')
        pid = args.pid.upper()
        os.environ['VERIF_TIER'] = args.tier
        mod = importlib.import_module(pid.lower())
        t0 = time.time()
        rep = lib.Reporter(pid)
        if args.replay:
            res = mod.replay(args.replay, rep)
            return rep.exit_code
        res = mod.run(args.tier, seed, rep)
        wall = time.time() - t0
        cov = res['coverage']
        cov.setdefault('known_findings_hit', [w for _, w in rep.known_hits])
        cov.setdefault('spec_drift', rep.drift)
        lib.write_evidence(pid, args.tier, seed, res['level'], cov, wall,
                           violations=len(rep.violations),
                           assumptions=res.get('assumptions', ()))
        print(f'{pid} {args.tier}: '
              f'{"VIOLATIONS=%d" % len(rep.violations) if rep.violations else "ok"}'
              f' in {wall:.1f}s', flush=True)
        return rep.exit_code
    except lib.MachineryError as e:
        print(f'MACHINERY-FAILURE: {e}', file=sys.stderr, flush=True)
        return 2
    except Exception:
        traceback.print_exc()
        print('MACHINERY-FAILURE: unexpected exception in harness',
              file=sys.stderr, flush=True)
        return 2
    finally:
        lib.cleanup()


if __name__ == '__main__':
    sys.exit(main())
