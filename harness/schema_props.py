"""C02 / C03 / C10 / C11 over the schema universe of spec/SchemaDDL.tla.

TLC (exhaustive small instance + simulation of the 4-type / 3-pointer
instance) supplies histories of accepted DDL commands; every state of a
history is an abstract schema.  From them:
  C02  ordered pairs (A, B): neighbours in a history (one command apart,
       both directions), far pairs, empty->S and S->empty; B is reached from
       a database holding A by (1) START MIGRATION TO / POPULATE / COMMIT
       through the server compiler, (2) delta_schemas + apply, (3) the DDL
       text of that delta re-parsed and applied; each result must project
       (generic name-based projection of the whole user schema) to the same
       thing as B built directly.
  C10  chains S1..Sn of states of one history, migrated step by step vs.
       directly, and a final migration to the empty schema.
  C03  for each schema: DESCRIBE as DDL and as SDL, replayed on a std-only
       database under different current modules / aliases.
  C11  for each schema: permutations of the SDL declarations and of the
       members of type bodies.
"""
from __future__ import annotations

import itertools
import json
import multiprocessing as mp
import random

import lib
import schema_common as SC
import c05 as H   # history helpers (parse_rows / behaviours)


def universe(seed, quick, nsim=None):
    r = lib.run_tlc('SchemaDDL', 'SchemaDDL_2.cfg', timeout=1800, deadlock=False)
    if r.violated:
        raise lib.MachineryError(f'SchemaDDL_2: {r.violated}')
    by, maximal = H.behaviours(H.parse_rows(r.output))
    rs = lib.run_tlc('SchemaDDL', 'SchemaDDL_sim.cfg', workers=8, timeout=1800,
                     simulate=f'num={nsim or (4 if quick else 120)}', depth=14,
                     seed=seed, deadlock=False)
    by2, max2 = H.behaviours(H.parse_rows(rs.output))
    return r, by, maximal, by2, max2


def freeze(sch):
    if isinstance(sch, str):
        return 'RAW:' + sch
    if isinstance(sch, tuple):
        return 'DDL:' + sch[1]
    return json.dumps(SC.model_state(sch), sort_keys=True)


def build(sdl):
    """fresh database migrated to sdl; returns (ctx, schema)"""
    ctx = SC.new_ctx()
    return ctx, SC.migrate(ctx, sdl)


# ------------------------------------------------------------------ C02
def check_pair(a_sch, b_sch):
    st = SC.S()
    from edb.schema import ddl as s_ddl, delta as sd
    sdl_a, sdl_b = SC.render_sdl(a_sch), SC.render_sdl(b_sch)
    bad = []
    try:
        ctx_b, real_b = build(sdl_b)
        ctx_a, real_a = build(sdl_a)
    except st['errors'].EdgeDBError as e:
        return None, f'schema not accepted: {type(e).__name__}: {str(e)[:100]}'
    want = SC.proj(real_b)
    # path 1: server compiler
    try:
        got1 = SC.migrate(ctx_a, sdl_b)
        d = SC.proj_diff(SC.proj(got1), want)
        if d:
            bad.append('migration through START/POPULATE/COMMIT MIGRATION does '
                       'not produce the target: ' + '; '.join(d[:3]))
    except st['errors'].EdgeDBError as e:
        if 'incomplete migration' not in str(e):
            return None, f'migration refused: {type(e).__name__}: {str(e)[:120]}'
        # COMMIT noticed that the computed migration does not reach B; the
        # DDL text of that migration is still what a user would replay
    # path 2: diff + apply, path 3: DDL text of the diff
    std = st['boot'].std_schema()
    full_a = st['s_schema'].ChainedSchema(std, real_a, st['s_schema'].EMPTY_SCHEMA)
    full_b = st['s_schema'].ChainedSchema(std, real_b, st['s_schema'].EMPTY_SCHEMA)
    try:
        delta = s_ddl.delta_schemas(full_a, full_b)
        ctx2 = sd.CommandContext()
        res2 = delta.apply(full_a, ctx2)
        got2 = res2.get_top_schema()
        d = SC.proj_diff(SC.proj(got2), want)
        path2 = None
        if d:
            path2 = ('delta_schemas(A, B) applied to A does not produce B: '
                     + '; '.join(d[:3]))
        text = s_ddl.ddl_text_from_delta(full_a, res2, delta)
        if text.strip():
            # replayed the way a user replays it: as a script through the
            # server compiler, on a database holding A
            ctx3 = SC.new_ctx(schema=real_a)
            SC.compile_stmt(ctx3, text)
            got3 = SC.user_schema(ctx3)
        else:
            got3 = real_a
        d = SC.proj_diff(SC.proj(got3), want)
        if d:
            bad.append('the DDL text of the migration, replayed on A, does not '
                       'produce B: ' + '; '.join(d[:3]) + f' (text: {text[:200]!r})')
        # upstream's notion as a cross-check: no residual difference
        resid = s_ddl.delta_schemas(res2, full_b)
        if not bad and len(list(resid.get_subcommands())) > 0:
            bad.append('delta_schemas(result, B) is not empty: '
                       + s_ddl.ddl_text_from_delta(res2, full_b, resid)[:200])
        # Applying the raw command tree is not how the system executes a
        # migration (it always goes through the DDL syntax tree, where renames
        # of callables are canonicalised); a mismatch on this path alone is
        # recorded but is not a verdict.
        if path2 and bad:
            bad.append(path2)
        elif path2:
            return [], 'RAW-DELTA-ONLY ' + path2
    except st['errors'].EdgeDBError as e:
        bad.append(f'diff / replay refused: {type(e).__name__}: {str(e)[:160]}')
    return bad, None


def _c02_job(pairs):
    SC.S()
    out, incon = [], []
    for a, b in pairs:
        try:
            bad, why = check_pair(a, b)
        except lib.MachineryError:
            raise
        except Exception as e:
            # an internal error is a refusal (the migration is not accepted);
            # it is reported in the evidence, it is not a C02 verdict
            bad, why = None, f'INTERNAL ERROR {type(e).__name__}: {str(e)[:160]}'
        if why:
            incon.append(why)
        elif bad:
            out.append(dict(a=SC.render_sdl(a), b=SC.render_sdl(b), failed=bad[:3]))
    return len(pairs), out, incon


def pairs_from(by, maximal, rnd, n_near, n_far):
    empty = {t: dict(ex=False, abstract=False, base='-', ptrs={}) for t in 'ABCD'}
    states = {}
    for h, (sch, _) in by.items():
        states.setdefault(freeze(sch), sch)
    near = []
    for h in maximal:
        for k in range(1, len(h) + 1):
            a, b = by[h[:k - 1]][0], by[h[:k]][0]
            near.append((a, b))
            near.append((b, a))
    rnd.shuffle(near)
    sl = list(states.values())
    far = []
    for _ in range(n_far):
        a, b = rnd.choice(sl), rnd.choice(sl)
        far.append((a, b))
    edge = [(empty, s) for s in sl[:n_far // 2]] + [(s, empty) for s in sl[:n_far // 2]]
    seen, out = set(), []
    for a, b in near[:n_near] + far + edge:
        k = (freeze(a), freeze(b))
        if k[0] != k[1] and k not in seen:
            seen.add(k)
            out.append((a, b))
    return out


def run_c02(tier, seed, rep):
    quick = tier == 'quick'
    SC.S()
    r, by, maximal, by2, max2 = universe(seed, quick)
    rnd = random.Random(seed)
    pairs = pairs_from(by, maximal, rnd, 40 if quick else 3000, 12 if quick else 600)
    max2s = sorted(max2, key=lambda h: -len(h))[:8 if quick else 300]
    pairs += pairs_from(H.sub(by2, max2s), max2s, rnd,
                        50 if quick else 6000, 16 if quick else 1500)
    import schema_features as SF
    pairs += SF.pairs()
    n = 0
    incon = []
    with mp.Pool(lib.NCPU) as pool:
        chunks = [pairs[i::lib.NCPU * 3] for i in range(lib.NCPU * 3)]
        for c, out, inc in pool.imap_unordered(_c02_job, [ch for ch in chunks if ch]):
            n += c
            incon += inc
            for v in out:
                rep.violation('pair:' + json.dumps([v['a'], v['b']]),
                              f"migrating {v['a']} -> {v['b']}: "
                              + '; '.join(v['failed'][:2]), v)
    cov = dict(states=r.distinct, transitions=r.generated,
               traces_validated_against_impl=n,
               samples=[dict(a=SC.render_sdl(pairs[0][0]), b=SC.render_sdl(pairs[0][1]))],
               pairs=n, inconclusive=len(incon),
               internal_errors=sorted({w for w in incon if w.startswith('INTERNAL')})[:5],
               inconclusive_examples=incon[:4],
               evaluations=n * 3, distinct_nontrivial=n,
               rule='one case = one ordered pair of distinct schemas from the '
                    'SchemaDDL.tla universe, migrated along three paths')
    return dict(level='model_checking', coverage=cov, assumptions=[
        'universe = the modelled feature set (single inheritance, properties, '
        'links, link properties, exclusive constraints, computeds, renames)',
        'schema equality = generic name-based projection of every object and '
        'persistent field of the user schema (migration objects excluded)',
        lib.SHIM_TRUST])


# ------------------------------------------------------------------ C10
def check_chain(chain):
    st = SC.S()
    bad = []
    ctx = SC.new_ctx()
    for i, sch in enumerate(chain):
        sdl = SC.render_sdl(sch)
        try:
            got = SC.migrate(ctx, sdl)
        except st['errors'].EdgeDBError as e:
            if 'incomplete migration' in str(e):
                # the user did nothing wrong: the migration the SYSTEM computed
                # for this step does not reach its own target, although the
                # same target is reachable directly - the outcome depends on
                # the path
                try:
                    build(sdl)
                except st['errors'].EdgeDBError:
                    return None, f'step {i + 1} target not accepted directly either'
                return [f'step {i + 1}: the migration computed by the system from the '
                        f'previous schema does not reach its target (COMMIT MIGRATION: '
                        f'{str(e)[:80]}), while an empty database migrates to the same '
                        f'target directly'], None
            return None, f'step {i + 1} refused: {type(e).__name__}: {str(e)[:120]}'
        try:
            _, direct = build(sdl)
        except st['errors'].EdgeDBError as e:
            return None, f'direct migration refused: {str(e)[:100]}'
        d = SC.proj_diff(SC.proj(got), SC.proj(direct))
        if d:
            bad.append(f'after step {i + 1} the schema differs from migrating an '
                       f'empty database directly to the same target: '
                       + '; '.join(d[:3]))
            return bad, None
    try:
        got = SC.migrate(ctx, 'module default {}')
    except st['errors'].EdgeDBError as e:
        bad.append(f'final migration to the empty schema refused: '
                   f'{type(e).__name__}: {str(e)[:160]}')
        return bad, None
    left = [k for k in SC.proj(got) if k != 'Module default']
    if left:
        bad.append(f'after migrating to the empty schema these objects are left '
                   f'behind: {left[:5]}')
    return bad, None


def _c10_job(chains):
    SC.S()
    out, incon = [], []
    for ch in chains:
        try:
            bad, why = check_chain(ch)
        except lib.MachineryError:
            raise
        except Exception as e:
            bad, why = None, f'INTERNAL ERROR {type(e).__name__}: {str(e)[:160]}'
        if why:
            incon.append(why)
        elif bad:
            out.append(dict(chain=[SC.render_sdl(s) for s in ch], failed=bad[:3]))
    return len(chains), out, incon


def chains_from(by, maximal, rnd, count):
    out = []
    for h in maximal:
        if len(h) < 3:
            continue
        for _ in range(2):
            k = sorted(rnd.sample(range(1, len(h) + 1), min(len(h), rnd.choice([2, 3, 4]))))
            ch = []
            for i in k:
                s = by[h[:i]][0]
                if not ch or freeze(ch[-1]) != freeze(s):
                    ch.append(s)
            if len(ch) >= 2:
                out.append(ch)
    rnd.shuffle(out)
    return out[:count]


def run_c10(tier, seed, rep):
    quick = tier == 'quick'
    SC.S()
    r, by, maximal, by2, max2 = universe(seed, quick)
    rnd = random.Random(seed)
    max2s = sorted(max2, key=lambda h: -len(h))[:40 if quick else 1500]
    chains = chains_from(H.sub(by2, max2s), max2s, rnd, 28 if quick else 2500)
    import schema_features as SF
    chains += SF.chains()
    n = 0
    incon = []
    with mp.Pool(lib.NCPU) as pool:
        chunks = [chains[i::lib.NCPU * 2] for i in range(lib.NCPU * 2)]
        for c, out, inc in pool.imap_unordered(_c10_job, [ch for ch in chunks if ch]):
            n += c
            incon += inc
            for v in out:
                f0 = v['failed'][0]
                if 'does not reach its target' in f0:
                    k = int(f0.split(':')[0].split()[1])
                    prev = v['chain'][k - 2] if k >= 2 else 'module default {}'
                    rep.violation('incomplete-step:' + json.dumps([prev, v['chain'][k - 1]]),
                                  f"from {prev} to {v['chain'][k - 1]}: " + f0, v)
                    continue
                rep.violation('chain:' + json.dumps(v['chain']),
                              f"chain {v['chain']}: " + '; '.join(v['failed'][:2]), v)
    cov = dict(states=r.distinct, transitions=r.generated,
               traces_validated_against_impl=n,
               samples=[dict(chain=[SC.render_sdl(s) for s in chains[0]])] if chains else [{}],
               chains=n, inconclusive=len(incon), inconclusive_examples=incon[:4],
               evaluations=n, distinct_nontrivial=n,
               rule='one case = a chain of 2-4 states of one SchemaDDL.tla '
                    'history, migrated step by step and compared with the '
                    'direct migration after every step, then migrated to the '
                    'empty schema')
    return dict(level='model_checking', coverage=cov, assumptions=[
        'schema equality = generic name-based projection', lib.SHIM_TRUST])


# ------------------------------------------------------------------ C03
SESSIONS = [
    dict(module='default', aliases={}),
    dict(module='other', aliases={}),
    dict(module='std', aliases={}),
    dict(module='other', aliases={'foo': 'default', 'bar': 'std'}),
    # an alias that shadows a user module name used in the text.  (Aliasing
    # `std` itself makes EVERY DDL statement fail - `create module x` included -
    # whatever the text, so it says nothing about the describe output.)
    dict(module='other', aliases={'default': 'other'}),
]


def check_describe(sch):
    st = SC.S()
    from edb.schema import ddl as s_ddl
    import immutables
    try:
        if isinstance(sch, tuple) and sch[0] == 'DDL':
            # built by plain DDL, so that the original does not depend on the
            # SDL loader whose output order is under test
            ctx = SC.new_ctx()
            SC.compile_stmt(ctx, sch[1])
            real = SC.user_schema(ctx)
        else:
            ctx, real = build(SC.render_sdl(sch))
    except st['errors'].EdgeDBError as e:
        return None, f'schema not accepted: {str(e)[:100]}'
    want = SC.proj(real)
    std = st['boot'].std_schema()
    full = st['s_schema'].ChainedSchema(std, real, st['s_schema'].EMPTY_SCHEMA)
    bad = []
    alias_bad = []
    texts = {}
    try:
        texts['DDL'] = s_ddl.ddl_text_from_schema(full)
        texts['SDL'] = s_ddl.sdl_text_from_schema(full)
    except Exception as e:
        return [f'describe fails: {type(e).__name__}: {str(e)[:200]}'], None
    for lang, text in texts.items():
        for sess in SESSIONS:
            ma = {None: sess['module']}
            ma.update(sess['aliases'])
            ctx2 = st['boot'].new_ctx(modaliases=immutables.Map(ma))
            try:
                SC.compile_stmt(ctx2, 'create module other')
                if lang == 'DDL':
                    if text.strip():
                        SC.compile_stmt(ctx2, text)
                else:
                    SC.compile_stmt(ctx2, 'start migration to { ' + text + ' }')
                    SC.compile_stmt(ctx2, 'populate migration')
                    SC.compile_stmt(ctx2, 'commit migration')
                got = SC.proj(SC.user_schema(ctx2))
                got.pop('Module other', None)
                w2 = dict(want)
                w2.pop('Module other', None)
                d = SC.proj_diff(got, w2)
                if d:
                    bad.append(f'{lang} text replayed with current module '
                               f'{sess["module"]!r} aliases {sess["aliases"]} gives '
                               f'a different schema: ' + '; '.join(d[:3]))
            except st['errors'].EdgeDBError as e:
                bad.append(f'{lang} text is rejected when replayed with current '
                           f'module {sess["module"]!r} aliases {sess["aliases"]}: '
                           f'{type(e).__name__}: {str(e)[:160]}')
            if bad:
                # the alias-shadowing configuration fails by design (a recorded
                # finding): keep checking the other language / configurations
                if all("aliases {'default': 'other'}" in f for f in bad):
                    alias_bad = alias_bad or list(bad)
                    bad = []
                    continue
                return bad, None
    return (bad or alias_bad), None


def _c03_job(schemas):
    SC.S()
    out, incon = [], []
    for s in schemas:
        try:
            bad, why = check_describe(s)
        except lib.MachineryError:
            raise
        except Exception as e:
            bad, why = [f'internal error: {type(e).__name__}: {str(e)[:200]}'], None
        if why:
            incon.append(why)
        elif bad:
            out.append(dict(schema=SC.render_sdl(s), failed=bad[:3]))
    return len(schemas), out, incon


def distinct_states(by, rnd, count, prefer_big=True):
    st = {}
    for h, (sch, _) in by.items():
        st.setdefault(freeze(sch), sch)
    sl = list(st.values())
    rnd.shuffle(sl)
    if prefer_big:
        sl.sort(key=lambda s: -sum(1 + len([p for p in t['ptrs'].values() if p['ex']])
                                   for t in s.values() if t['ex']))
    return sl[:count]


def run_c03(tier, seed, rep):
    quick = tier == 'quick'
    SC.S()
    r, by, maximal, by2, max2 = universe(seed, quick)
    rnd = random.Random(seed)
    schemas = distinct_states(by, rnd, 10 if quick else 400, False) + \
        distinct_states(by2, rnd, 22 if quick else 2500)
    import schema_features as SF
    schemas += SF.all_schemas()
    schemas += [('DDL', h) for h in SF.DDL_HISTORIES]
    n = 0
    incon = []
    with mp.Pool(lib.NCPU) as pool:
        chunks = [schemas[i::lib.NCPU * 2] for i in range(lib.NCPU * 2)]
        for c, out, inc in pool.imap_unordered(_c03_job, [ch for ch in chunks if ch]):
            n += c
            incon += inc
            for v in out:
                if all("aliases {'default': 'other'}" in f for f in v['failed']):
                    rep.violation('describe:session-alias-shadows-a-user-module',
                                  f"schema {v['schema']}: " + v['failed'][0][:300], v)
                    continue
                rep.violation('describe:' + v['schema'],
                              f"schema {v['schema']}: " + '; '.join(v['failed'][:2]), v)
    cov = dict(states=r.distinct, transitions=r.generated,
               traces_validated_against_impl=n,
               samples=[dict(schema=SC.render_sdl(schemas[-1]))],
               schemas=n, replays=n * 2 * len(SESSIONS), inconclusive=len(incon),
               evaluations=n * 2 * len(SESSIONS), distinct_nontrivial=n,
               rule='one case = one schema of the SchemaDDL.tla universe, '
                    'described as DDL and SDL and replayed under 4 session '
                    'configurations')
    return dict(level='model_checking', coverage=cov, assumptions=[
        'describe text obtained from ddl_text_from_schema / '
        'sdl_text_from_schema (what DESCRIBE SCHEMA compiles to)',
        lib.SHIM_TRUST])


# ------------------------------------------------------------------ C11
def raw_orders(sdl, rnd, limit):
    """declaration orders of a hand-written SDL document: the module blocks
    and the declarations inside every block are permuted on the syntax tree
    and printed back (unsorted)"""
    st = SC.S()
    from edb.edgeql import parser as qlparser, codegen as qlcodegen
    tree = qlparser.parse_sdl(sdl)
    orig = [(m, list(m.declarations)) for m in tree.declarations]
    out = [sdl]
    for k in range(limit - 1):
        mods = [m for m, _ in orig]
        if k == 0:
            mods = list(reversed(mods))
            for m, ds in orig:
                m.declarations = list(reversed(ds))
        else:
            rnd.shuffle(mods)
            for m, ds in orig:
                m.declarations = rnd.sample(ds, len(ds))
        tree.declarations = mods
        out.append(qlcodegen.generate_source(tree, sdlmode=True, unsorted=True,
                                             pretty=False))
    uniq = []
    for t in out:
        if t not in uniq:
            uniq.append(t)
    return uniq


def check_permutations(sch, rnd, limit):
    st = SC.S()
    if isinstance(sch, str):
        sdls = raw_orders(sch, rnd, limit)
    else:
        names = [t for t in sorted(sch) if sch[t]['ex']]
        n = len(names)
        perms = list(itertools.permutations(range(n)))
        if len(perms) > limit:
            perms = [perms[0]] + rnd.sample(perms[1:], limit - 1)
        sdls = []
        for k, perm in enumerate(perms):
            flip = (k % 2 == 1)

            def ptr_order(t, ps, flip=flip):
                return list(reversed(ps)) if flip else ps
            sdls.append(SC.render_sdl(sch, order=perm, ptr_order=ptr_order))
    results = []
    for sdl in sdls:
        try:
            _, real = build(sdl)
            results.append((sdl, 'ok', SC.proj(real)))
        except st['errors'].EdgeDBError as e:
            results.append((sdl, f'{type(e).__name__}: {str(e)[:140]}', None))
    oks = [r for r in results if r[1] == 'ok']
    bad = []
    if oks and len(oks) != len(results):
        rej = [r for r in results if r[1] != 'ok'][0]
        bad.append(f'the same declarations are accepted in one order ({oks[0][0]}) '
                   f'and rejected in another ({rej[0]}): {rej[1]}')
    for r_ in oks[1:]:
        d = SC.proj_diff(r_[2], oks[0][2])
        if d:
            bad.append(f'declaration order changes the schema: {r_[0]} vs '
                       f'{oks[0][0]}: ' + '; '.join(d[:3]))
            break
    if not oks and results:
        return None, f'schema not accepted in any order: {results[0][1]}', len(results)
    return bad, None, len(results)


def _c11_job(args):
    schemas, seed, limit = args
    SC.S()
    rnd = random.Random(seed)
    out, incon = [], []
    nperm = 0
    for s in schemas:
        try:
            bad, why, k = check_permutations(s, rnd, limit)
            nperm += k
        except lib.MachineryError:
            raise
        except Exception as e:
            bad, why = [f'internal error: {type(e).__name__}: {str(e)[:200]}'], None
        if why:
            incon.append(why)
        elif bad:
            out.append(dict(schema=SC.render_sdl(s), failed=bad[:3]))
    return len(schemas), nperm, out, incon


def run_c11(tier, seed, rep):
    quick = tier == 'quick'
    SC.S()
    r, by, maximal, by2, max2 = universe(seed, quick)
    rnd = random.Random(seed)
    schemas = [s for s in distinct_states(by2, rnd, 400 if quick else 6000)
               if sum(1 for t in s.values() if t['ex']) >= 2]
    schemas = schemas[:24 if quick else 1500]
    import schema_features as SF
    schemas += SF.all_schemas()
    n = nperm = 0
    incon = []
    with mp.Pool(lib.NCPU) as pool:
        chunks = [schemas[i::lib.NCPU * 2] for i in range(lib.NCPU * 2)]
        for c, k, out, inc in pool.imap_unordered(
                _c11_job, [(ch, seed + i, 6 if quick else 24)
                           for i, ch in enumerate(chunks) if ch]):
            n += c
            nperm += k
            incon += inc
            for v in out:
                rep.violation('perm:' + v['schema'],
                              f"schema {v['schema']}: " + '; '.join(v['failed'][:2]), v)
    cov = dict(states=r.distinct, transitions=r.generated,
               traces_validated_against_impl=nperm,
               samples=[dict(schema=SC.render_sdl(schemas[0]))] if schemas else [{}],
               schemas=n, permutations=nperm, inconclusive=len(incon),
               evaluations=nperm, distinct_nontrivial=n,
               rule='one case = one schema (>= 2 types) of the universe; all '
                    '(or sampled) permutations of its type declarations, with '
                    'the members of type bodies reversed in every other '
                    'permutation')
    return dict(level='model_checking', coverage=cov, assumptions=[
        'universe = the modelled feature set; dependency-rich documents '
        '(functions, aliases, globals, cross-module) are not generated by the '
        'model', lib.SHIM_TRUST])
