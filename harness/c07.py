"""C07 - access policies guard every read path.

spec/Policies.tla enumerates configurations (one or two access policies
placed on types of a fixed schema with single and multiple inheritance, each
policy recognisable by a marker constant) and, for every query of a list of
access paths, derives the guarded storage and the markers that must filter
it.  For every configuration the schema is built on the real system, every
query is compiled by the real compiler (EdgeQL -> IR -> SQL tree) and
  1. every read of a table of a type with policies in force - outside policy
     bodies, where policies are deliberately not applied - must flow through
     a SELECT whose WHERE clause carries all the markers the specification
     lists for that type;
  2. the IR must register a type rewrite for every guarded type the
     specification predicts for the query (conformance to the model);
  3. a guarded table read in SQL that the specification did not predict is
     reported as SPEC-DRIFT (the model's read sets are incomplete).
"""
from __future__ import annotations

import json
import multiprocessing as mp

import lib

_S = {}

TYPES = ['Owned', 'Base', 'Mid', 'Leaf', 'Priv', 'Holder']

SDL_HEAD = '''
  global nmid := count(Mid);
  alias AllMid := Mid;
  alias MidNames := Mid.name;
'''


def policy_text(ty, kind):
    mark = f"'MARK_{ty}'"
    if kind == 'allow_select':
        return f'access policy p_{ty} allow select using (.tag ?= {mark});'
    if kind == 'allow_all':
        return f'access policy p_{ty} allow all using (.tag ?= {mark});'
    if kind == 'deny_select':
        return f'access policy p_{ty} deny select using (.tag ?= {mark});'
    if kind == 'uses_global':
        return (f'access policy p_{ty} allow select using '
                f'(global nmid >= 0 and .tag ?= {mark});')
    raise ValueError(kind)


def sdl_for(cfg):
    pol = {t: '' for t in TYPES}
    for p in cfg:
        pol[p['ty']] += ' ' + policy_text(p['ty'], p['kind'])
    return ('module default {' + SDL_HEAD +
            f" type Owned {{ property tag -> str; property owner -> str;{pol['Owned']} }};"
            f" type Base {{ property tag -> str; property name -> str; link peer -> Base;{pol['Base']} }};"
            f" type Mid extending Base {{{pol['Mid']} }};"
            f" type Leaf extending Mid {{{pol['Leaf']} }};"
            f" type Priv extending Base, Owned {{{pol['Priv']} }};"
            f" type Holder {{ property tag -> str; link one -> Base; multi link many -> Mid; "
            f"link lf -> Leaf; link comp := .one[is Mid]; property cnt := count(.many);"
            f"{pol['Holder']} }};"
            ' }')


QUERIES = {
    'direct_Owned': 'select Owned', 'direct_Base': 'select Base { name }',
    'direct_Mid': 'select Mid', 'direct_Leaf': 'select Leaf { name, tag }',
    'direct_Priv': 'select Priv', 'direct_Holder': 'select Holder',
    'link_one': 'select Holder.one', 'link_many': 'select Holder.many { name }',
    'link_lf': 'select Holder.lf', 'link_peer': 'select Base.peer.peer',
    'back_one': 'select Base.<one[is Holder]',
    'back_many': 'select Mid.<many[is Holder] { tag }',
    'shape_links': 'select Holder { one: { name }, many: { name } }',
    'shape_nested': 'select Holder { one: { peer: { peer: { name } } } }',
    'isect_leaf': 'select Base[is Leaf]',
    'isect_link': 'select Holder.one[is Mid] { name }',
    'isect_owned': 'select Owned[is Priv]',
    'isect_back': 'select Mid.<many[is Holder].one',
    'agg_count': 'select count(Base)',
    'agg_count_link': 'select count(Holder.many)',
    'agg_exists': 'select exists Leaf',
    'agg_in_shape': 'select Holder { n := count(.many), e := exists .many }',
    'sub_filter': "select (select Mid filter .name = 'x')",
    'sub_exists': 'select Holder filter exists .one',
    'sub_in_filter': "select Mid filter .name in (select Leaf).name",
    'sub_tuple': 'select (Holder, (select Base limit 1).name)',
    'alias_type': 'select AllMid { name }',
    'alias_expr': 'select MidNames',
    'alias_in_with': 'with h := Holder select (count(h), count(AllMid))',
    'comp_link': 'select Holder.comp { name }',
    'comp_prop': 'select Holder { cnt }',
    'global_count': 'select global nmid',
    'global_tuple': 'select (global nmid, count(Holder))',
    'global_after_type': 'select (count(Holder), global nmid)',
    'for_link': 'for h in Holder union (h.one)',
    'with_binding': 'with m := Mid select m { name }',
    'detached_leaf': 'select detached Leaf',
    'union_types': 'select {Leaf, Priv}',
    'coalesce_links': 'select Holder.lf ?? Holder.one',
    'ifelse_types': 'select Mid if true else Priv',
}


def S():
    if _S:
        return _S
    import boot
    from edb.server.compiler import compiler as C
    from edb import edgeql, errors
    from edb.edgeql import compiler as qlcompiler, parser as qlparser
    from edb.pgsql import ast as pgast, compiler as pgcompiler
    from edb.common import ast as cast
    from edb.schema import name as sn
    boot.compiler()
    _S.update(boot=boot, C=C, edgeql=edgeql, errors=errors, qlcompiler=qlcompiler,
              qlparser=qlparser, pgast=pgast, pgcompiler=pgcompiler, cast=cast, sn=sn)
    return _S


def build_schema(cfg):
    st = S()
    ctx = st['boot'].new_ctx()
    src = st['edgeql'].Source.from_string
    st['C'].compile(ctx=ctx, source=src('create module default'))
    st['C'].compile(ctx=ctx, source=src(
        'start migration to {%s}; populate migration; commit migration' % sdl_for(cfg)))
    return ctx.state.current_tx().get_schema(st['boot'].std_schema())


SKIP_FIELDS = frozenset((
    'path_rvar_map', 'path_namespace', 'path_outputs', 'view_path_id_map',
    'path_id_mask', 'path_bonds', 'path_scope', 'path_id', 'typeref',
    'ctes', 'span', 'packed_path_rvar_map', 'packed_path_outputs',
    'value_scope', 'path_packed_outputs', 'path_rvar_map',
))


def walk(node, stack, out):
    """collect (Relation, [(ancestor, field), ...]) for every table read; a
    reference to a CTE is followed into the CTE body"""
    st = _S
    cast, pgast = st['cast'], st['pgast']
    if isinstance(node, cast.AST):
        if isinstance(node, pgast.Relation):
            out.append((node, list(stack)))
            return
        if any(node is n for n, _ in stack):
            return
        for fname in node._fields:
            if fname in SKIP_FIELDS:
                continue
            stack.append((node, fname))
            walk(getattr(node, fname, None), stack, out)
            stack.pop()
    elif isinstance(node, (list, tuple, set, frozenset)):
        for x in node:
            walk(x, stack, out)
    elif isinstance(node, dict):
        for x in node.values():
            walk(x, stack, out)


def markers_in(node, seen=None):
    """marker constants inside a SQL subtree (CTE references not followed)"""
    st = _S
    cast, pgast = st['cast'], st['pgast']
    out = set()
    todo = [node]
    visited = set()
    while todo:
        n = todo.pop()
        if isinstance(n, cast.AST):
            if id(n) in visited:
                continue
            visited.add(id(n))
            if isinstance(n, pgast.StringConstant) and str(n.val).startswith('MARK_'):
                out.add(str(n.val)[5:])
            if isinstance(n, (pgast.CommonTableExpr,)):
                continue
            for f in n._fields:
                if f in SKIP_FIELDS or f == 'relation':
                    continue
                todo.append(getattr(n, f, None))
        elif isinstance(n, (list, tuple, set, frozenset)):
            todo.extend(n)
        elif isinstance(n, dict):
            todo.extend(n.values())
    return out


def from_items(sel):
    """range variables of a SELECT's FROM clause (joins flattened)"""
    pgast = _S['pgast']
    out = []
    todo = list(sel.from_clause or [])
    while todo:
        n = todo.pop()
        if isinstance(n, pgast.JoinExpr):
            todo.append(n.larg)
            todo.extend(j.rarg for j in n.joins)
        elif n is not None:
            out.append(n)
    return out


def cond_branches(sel):
    """FROM items whose columns the WHERE clause tests: the policy condition
    is computed in a LATERAL item and the WHERE clause reads its result"""
    pgast, cast = _S['pgast'], _S['cast']
    if sel.where_clause is None:
        return []
    names = set()
    todo = [sel.where_clause]
    while todo:
        n = todo.pop()
        if isinstance(n, pgast.ColumnRef):
            if len(n.name) >= 2 and isinstance(n.name[0], str):
                names.add(n.name[0])
        elif isinstance(n, pgast.SelectStmt):
            continue
        elif isinstance(n, cast.AST):
            for f in n._fields:
                if f not in SKIP_FIELDS:
                    todo.append(getattr(n, f, None))
        elif isinstance(n, (list, tuple)):
            todo.extend(n)
    return [fi for fi in from_items(sel)
            if getattr(fi, 'alias', None) is not None
            and fi.alias.aliasname in names]


def analyse(tree, table_to_type, markers_of):
    """-> (unguarded reads, guarded types actually read)"""
    pgast = _S['pgast']
    found = []
    walk(tree, [], found)
    bad, seen = [], set()
    cache = {}

    def info(sel):
        if id(sel) not in cache:
            cb = cond_branches(sel)
            m = markers_in(sel.where_clause) if sel.where_clause is not None else set()
            for b in cb:
                m |= markers_in(b)
            cache[id(sel)] = (cb, m)
        return cache[id(sel)]

    for rel, stack in found:
        t = table_to_type.get(rel.name)
        if t is None or not markers_of.get(t):
            continue
        nodes = [n for n, _ in stack]
        in_cte = False
        policy_body = False
        have = set()
        for i, (n, f) in enumerate(stack):
            if isinstance(n, pgast.CommonTableExpr):
                in_cte = True
            if isinstance(n, pgast.SelectStmt) and n.where_clause is not None:
                cb, m = info(n)
                below = nodes[i + 1:]
                through_cond = f == 'where_clause' or any(
                    any(b is x for x in below) for b in cb)
                if through_cond and in_cte and m:
                    # the read serves the computation of a policy condition:
                    # policies are deliberately not applied inside policies
                    policy_body = True
                    break
                if not through_cond:
                    have |= m
        if policy_body:
            continue
        seen.add(t)
        missing = set(markers_of[t]) - have
        if missing:
            chain = ' -> '.join(n.name for n in nodes
                                if isinstance(n, pgast.CommonTableExpr))
            bad.append(f'the table of {t} is read (via [{chain or "no CTE"}]) '
                       f'without the condition of the polic'
                       f'{"ies" if len(missing) > 1 else "y"} placed on '
                       f'{sorted(missing)}')
    return sorted(set(bad)), seen


def check_config(cfg, expect):
    st = S()
    try:
        schema = build_schema(cfg)
    except st['errors'].EdgeDBError as e:
        raise lib.MachineryError(f'schema for {cfg} rejected: {e}')
    sn = st['sn']
    table_to_type, tids = {}, {}
    for t in TYPES:
        obj = schema.get(sn.QualName('default', t))
        table_to_type[str(obj.id)] = t
        tids[t] = obj.id
    out, drift = [], []
    n = nrej = nguard = 0
    for qid, text in QUERIES.items():
        exp = expect.get(qid) or {}
        markers_of = {}
        # the reference for "which policies are in force on t" is the model:
        # take it for every type (the query-specific sets are sub-maps of it)
        for q2 in expect.values():
            if q2:
                markers_of.update({t: sorted(m) for t, m in q2.items()})
        n += 1
        try:
            ir = st['qlcompiler'].compile_ast_to_ir(
                st['qlparser'].parse_query(text), schema,
                options=st['qlcompiler'].CompilerOptions(modaliases={None: 'default'}))
            tree = st['pgcompiler'].compile_ir_to_sql_tree(
                ir, output_format=st['pgcompiler'].OutputFormat.NATIVE).ast
        except st['errors'].EdgeDBError as e:
            nrej += 1
            continue
        bad, seen = analyse(tree, table_to_type, markers_of)
        nguard += len(seen)
        # 2. the IR registers a rewrite for every guarded type it reads
        rew = {tid for (tid, _incl) in (ir.type_rewrites or {})}
        for t in seen:
            if tids[t] not in rew and not any(
                    tids[a] in rew for a in TYPES if a != t):
                bad.append(f'{t} is read but the IR registers no type rewrite at all')
        if bad:
            out.append(dict(config=[dict(p) for p in cfg], query_id=qid, query=text,
                            failed=bad[:4]))
        extra = seen - set(exp)
        if extra:
            drift.append(f'{qid} ({text}) reads guarded {sorted(extra)}; the model '
                         f'predicted {sorted(exp)}')
    return n, nrej, nguard, out, drift


def parse_out(output):
    rows = []
    for line in output.splitlines():
        if line.startswith('"OUT '):
            cfg, exp = lib.fast_parse_tla(line[5:-1].replace('\\"', '"'))
            cfg = sorted((dict(p) for p in cfg), key=lambda p: (p['ty'], p['kind']))
            exp = {q: (dict(v) if isinstance(v, dict) else {}) for q, v in dict(exp).items()}
            rows.append((cfg, exp))
    return rows


def _job(rows):
    S()
    tot = [0, 0, 0]
    out, drift = [], []
    for cfg, exp in rows:
        n, nrej, ng, o, d = check_config(cfg, exp)
        tot[0] += n
        tot[1] += nrej
        tot[2] += ng
        out += o
        drift += d
    return tot, out, drift


def negative_control():
    """the audit must be able to say no: compile the queries against a schema
    WITHOUT the policy while telling the audit that Mid carries one"""
    st = S()
    schema = build_schema([dict(ty='Holder', kind='allow_select')])
    sn = st['sn']
    table_to_type = {str(schema.get(sn.QualName('default', t)).id): t for t in TYPES}
    flagged = 0
    for text in ('select Mid', 'select Holder.many { name }', 'select count(Base)'):
        ir = st['qlcompiler'].compile_ast_to_ir(
            st['qlparser'].parse_query(text), schema,
            options=st['qlcompiler'].CompilerOptions(modaliases={None: 'default'}))
        tree = st['pgcompiler'].compile_ir_to_sql_tree(
            ir, output_format=st['pgcompiler'].OutputFormat.NATIVE).ast
        bad, seen = analyse(tree, table_to_type, {'Mid': ['Mid'], 'Leaf': ['Mid']})
        flagged += bool(bad)
    if flagged != 3:
        raise lib.MachineryError('the SQL audit did not flag unfiltered reads in its '
                                 f'negative control ({flagged}/3)')


def replay(path, rep):
    d = json.load(open(path))['replay']
    S()
    cfg = d['config']
    schema = build_schema(cfg)
    print(sdl_for(cfg))
    print(d['query'], d['failed'])


def run(tier, seed, rep):
    S()
    r = lib.run_tlc('Policies', 'Policies.cfg', timeout=600, deadlock=False)
    if r.violated:
        raise lib.MachineryError(f'Policies: {r.violated}')
    rows = parse_out(r.output)
    if set(QUERIES) != set(rows[0][1]):
        raise lib.MachineryError('query ids of Policies.tla and c07.QUERIES differ: '
                                 f'{sorted(set(QUERIES) ^ set(rows[0][1]))}')
    negative_control()
    tot = [0, 0, 0]
    ndrift = 0
    with mp.Pool(lib.NCPU) as pool:
        chunks = [rows[i::lib.NCPU * 2] for i in range(lib.NCPU * 2)]
        for t, out, drift in pool.imap_unordered(_job, [c for c in chunks if c]):
            for i in range(3):
                tot[i] += t[i]
            for v in out:
                cfgs = '+'.join(f"{p['kind']}@{p['ty']}" for p in v['config'])
                rep.violation(f"policy:{cfgs}:{v['query_id']}",
                              f"policies [{cfgs}], `{v['query']}`: "
                              + '; '.join(v['failed'][:2]), v)
            for dft in drift:
                ndrift += 1
                if len(rep.drift) < 8:
                    rep.spec_drift(dft)
    cov = dict(states=r.distinct, transitions=r.generated,
               traces_validated_against_impl=tot[0],
               samples=[dict(config=rows[5][0], sdl=sdl_for(rows[5][0])[:400])],
               exhaustive=True, configurations=len(rows), queries_per_configuration=len(QUERIES),
               compilations=tot[0], rejected_by_compiler=tot[1],
               guarded_reads_seen_in_sql=tot[2], model_read_set_drift=ndrift,
               evaluations=tot[0], distinct_nontrivial=tot[2],
               rule='one case = (policy configuration of Policies.tla, access-path '
                    'query) compiled to a SQL tree; non-trivial = a guarded table '
                    'read found in the tree and judged')
    return dict(level='model_checking', coverage=cov, assumptions=[
        'the SQL tree is inspected, not executed; a policy condition is '
        'recognised by its marker constant in a WHERE clause on the path from '
        'the table read to the root (CTE references followed)',
        'reads below the WHERE clause of a rewrite CTE are policy bodies and exempt',
        lib.SHIM_TRUST])
