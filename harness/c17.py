"""C17 - compiler workers always compile against the caller's current state.

Spec: spec/CompilerPool.tla (belief vs actual, identity-based partial
transmission, per-field failure points of __sync__, compile_in_tx marker /
pickled path).  TLC checks UsesSupplied / TxStateRight / BeliefSound
exhaustively on small constants.

Conformance: the REAL AbstractPool.compile / compile_in_tx,
_compute_compile_preargs, BaseWorker.call and a PRIVATE COPY of the real
worker.py per worker (its module globals are the worker's actual state) run
in-process; only the transport (pickled message straight into the worker's
request handler, transcribed from worker_proc.worker) and the heavy
Compiler (a recorder) are stood in.  Both directions:
  * behaviours simulated by TLC are replayed call by call, comparing the
    spec's belief/actual with the code's after every call;
  * seeded random histories are recorded and validated by TLC
    (TraceCompilerPool.tla).
C17's predicates are also asserted directly on the code after every call.
"""
from __future__ import annotations

import asyncio
import glob
import importlib.util
import json
import os
import pickle
import random
import re
import sys
import traceback

import lib

FIELDS = ('us', 'rc', 'gs', 'dc', 'sc')
DF = ('us', 'rc', 'dc')

# ------------------------------------------------------------------ values
FAIL = set()        # (field, k) whose unpickling must raise right now


class LoadError(Exception):
    pass


def _chk(field, k):
    if (field, k) in FAIL:
        raise LoadError(f'cannot unpickle {field}#{k}')
    return (field, k)


class Token:
    """pickles to a call of _chk(field, k): loading yields (field, k) or raises"""

    def __init__(self, field, k):
        self.field, self.k = field, k

    def __reduce__(self):
        return (_chk, (self.field, self.k))

    def __hash__(self):
        return hash((self.field, self.k))

    def __eq__(self, o):
        return isinstance(o, Token) and (o.field, o.k) == (self.field, self.k)


class StateObj:
    """stand-in for CompilerConnectionState"""

    def __init__(self, sid):
        self.sid = sid
        self.mutated = False
        self.root = None

    def set_root_user_schema(self, s):
        self.root = s

    def __getstate__(self):
        # like the real state, the root user schema is not pickled
        return dict(sid=self.sid, mutated=self.mutated, root=None)


class CompileError(Exception):
    pass


class Recorder:
    """COMPILER stand-in: records what the worker hands to the compiler"""

    def __init__(self, world):
        self.world = world
        self.calls = []

    def compile_serialized_request(self, us, gs, rc, dc, sc, *args, **kw):
        self.calls.append(('compile', dict(us=us, gs=gs, rc=rc, dc=dc, sc=sc)))
        plan = self.world.plan
        if not plan['ok']:
            raise CompileError('rejected')
        if plan['intx']:
            self.world.nstate += 1
            st = StateObj(self.world.nstate)
            st.root = us
            return ('units',), st
        return ('units',), None

    def compile_serialized_request_in_tx(self, cstate, *args, **kw):
        self.calls.append(('tx', dict(sid=cstate.sid, mutated=cstate.mutated,
                                      root=cstate.root)))
        plan = self.world.plan
        if not plan['ok']:
            if plan.get('dirties'):
                cstate.mutated = True      # in-place mutation, then rejection
            raise CompileError('rejected')
        self.world.nstate += 1
        st = StateObj(self.world.nstate)
        st.root = cstate.root
        return ('units',), st


class FakeCon:
    def is_closed(self):
        return False


def _val_of(field, obj):
    """identity k of an unpickled / pickled value"""
    if obj is None:
        return 0
    if isinstance(obj, tuple) and len(obj) == 2 and obj[0] == field:
        return obj[1]
    try:
        import immutables
        if isinstance(obj, immutables.Map):
            if len(obj) == 0:
                return 2           # the falsy identity (see World.values)
            t = obj.get('v')
            if isinstance(t, tuple):
                return t[1]
            if isinstance(t, Token):
                return t.k
    except Exception:
        pass
    raise lib.MachineryError(f'cannot project value {obj!r} of field {field}')


class World:
    def __init__(self, workers, dbs, nvals=3):
        import boot  # noqa: F401
        import immutables
        from edb.server.compiler_pool import pool as cpool
        from edb.server.compiler_pool import state as cstate
        self.cpool, self.cstate = cpool, cstate
        self.wnames, self.dbs, self.nvals = list(workers), list(dbs), nvals
        self.nstate = 0
        self.plan = {}
        self.cli = None             # pickled state (bytes object) the client holds
        self.cli_sid = 0
        self.cli_db = None
        self.cli_us = 0
        FAIL.clear()
        # one Python object per (field, identity); identity 2 of rc/dc is the
        # EMPTY (falsy) container
        self.values = {}
        for k in range(1, nvals + 1):
            self.values['us', k] = pickle.dumps(Token('us', k), -1)
            self.values['gs', k] = pickle.dumps(Token('gs', k), -1)
            for f in ('rc', 'dc', 'sc'):
                if f in ('rc', 'dc') and k == 2:
                    self.values[f, k] = immutables.Map()
                else:
                    self.values[f, k] = immutables.Map({'v': Token(f, k)})
        self.ident = {id(v): (f, k) for (f, k), v in self.values.items()}

        world = self

        class HWorker(cpool.BaseWorker):
            def __init__(self, name, *a):
                super().__init__(*a)
                self.name = name
                self._con = FakeCon()

            async def _request(self, method_name, args):
                msg = pickle.dumps((method_name, args))
                return world.worker_serve(self.name, msg)

        class HPool(cpool.AbstractPool):
            def __init__(self):
                self._loop = None
                self.forced = None

            async def _acquire_worker(self, *, condition=None, weighter=None,
                                      **kw):
                return world.workers[self.forced]

            def _release_worker(self, worker, *, put_in_front=True):
                pass

        self.HWorker = HWorker
        self.pool = HPool()
        self.workers = {}
        self.mods = {}
        self.recs = {}
        for w in self.wnames:
            self.spawn(w)

    # ---- worker process stand-in
    def spawn(self, w):
        import immutables
        self.workers[w] = self.HWorker(
            w, immutables.Map(), None, None, None, None,
            self.values['gs', 1], self.values['sc', 1])
        name = f'edb.server.compiler_pool._verif_worker_{w}'
        spec = importlib.util.spec_from_file_location(
            name, os.path.join(lib.REPO, 'edb/server/compiler_pool/worker.py'))
        m = importlib.util.module_from_spec(spec)
        sys.modules[name] = m
        spec.loader.exec_module(m)
        # what __init_worker__ does, without building a real Compiler
        m.INITED = True
        m.DBS = immutables.Map()
        m.GLOBAL_SCHEMA = pickle.loads(self.values['gs', 1])
        m.INSTANCE_CONFIG = self.values['sc', 1]
        m.LAST_STATE = None
        self.recs[w] = Recorder(self)
        m.COMPILER = self.recs[w]
        self.mods[w] = m

    def worker_serve(self, w, req):
        """body of worker_proc.worker()'s request loop"""
        m = self.mods[w]
        try:
            methname, args = pickle.loads(req)
            meth = m.get_handler(methname)
        except Exception as ex:
            data = (1, ex, traceback.format_exc())
        else:
            try:
                res = meth(*args)
                data = (0, res)
            except Exception as ex:
                data = (1, ex, traceback.format_exc())
        try:
            return pickle.dumps(data, -1)
        except Exception as ex:
            return pickle.dumps((2, f'{ex}'), -1)

    # ---- calls
    def _run(self, coro):
        try:
            coro.send(None)
        except StopIteration as e:
            return ('ok', e.value)
        except Exception as e:
            return ('err', e)
        raise lib.MachineryError('pool coroutine suspended unexpectedly')

    def do_compile(self, w, d, a, fp='none', ok=True, intx=False):
        """a: dict field -> identity.  Returns dict(used=.., outcome=..)"""
        FAIL.clear()
        if fp != 'none':
            FAIL.add((fp, a[fp]))
            if fp in ('rc', 'dc') and a[fp] == 2:
                raise lib.MachineryError('an empty map cannot be made to fail')
        self.plan = dict(ok=ok, intx=intx)
        self.pool.forced = w
        rec = self.recs[w]
        n0 = len(rec.calls)
        out = self._run(self.pool.compile(
            d, self.values['us', a['us']], self.values['gs', a['gs']],
            self.values['rc', a['rc']], self.values['dc', a['dc']],
            self.values['sc', a['sc']], 'request'))
        FAIL.clear()
        used = None
        if len(rec.calls) > n0:
            kind, u = rec.calls[-1]
            used = {f: _val_of(f, u[f]) for f in FIELDS}
        if out[0] == 'ok':
            pst = out[1][1]
            if pst is not None and self.cli is None:
                self.cli = pst
                self.cli_sid = pickle.loads(pst).sid
                self.cli_db, self.cli_us = d, a['us']
        # any other exception type is simply "the call failed": whether the
        # bookkeeping survived it is what check_belief() decides
        kind = 'ok' if out[0] == 'ok' else (
            'syncfail' if isinstance(out[1], self.cstate.FailedStateSync)
            else 'err')
        return dict(used=used, outcome=kind,
                    error=None if out[0] == 'ok' else type(out[1]).__name__)

    def choose_tx_worker(self):
        for w in self.wnames:
            if self.workers[w]._last_pickled_state is self.cli:
                return w
        return None

    def do_tx(self, w, ok=True, dirties=False):
        d, us = self.cli_db, self.cli_us
        self.plan = dict(ok=ok, intx=True, dirties=dirties)
        self.pool.forced = w
        rec = self.recs[w]
        n0 = len(rec.calls)
        want_sid = self.cli_sid
        out = self._run(self.pool.compile_in_tx(
            d, self.values['us', us], 1, self.cli, 0, 'request'))
        used = None
        if len(rec.calls) > n0:
            kind, u = rec.calls[-1]
            used = dict(sid=u['sid'], mutated=u['mutated'],
                        root=_val_of('us', u['root']))
        if out[0] == 'ok':
            self.cli = out[1][1]
            self.cli_sid = pickle.loads(self.cli).sid
        return dict(used=used, outcome='ok' if out[0] == 'ok' else 'err',
                    want_sid=want_sid, us=us)

    def tx_end(self):
        self.cli = None
        self.cli_sid = 0
        self.cli_db, self.cli_us = None, 0

    # ---- projections in the spec's terms
    def _id(self, f, obj):
        if obj is None:
            return 0
        got = self.ident.get(id(obj))
        if got is None or got[0] != f:
            raise lib.MachineryError(f'belief holds an unknown object for {f}')
        return got[1]

    def belief(self, w):
        wk = self.workers[w]
        dbs = {}
        for d in self.dbs:
            e = wk._dbs.get(d)
            dbs[d] = dict(us=0, rc=0, dc=0) if e is None else dict(
                us=self._id('us', e.user_schema_pickle),
                rc=self._id('rc', e.reflection_cache),
                dc=self._id('dc', e.database_config))
        lps = wk._last_pickled_state
        return dict(dbs=dbs, gs=self._id('gs', wk._global_schema_pickle),
                    sc=self._id('sc', wk._system_config),
                    lps=0 if lps is None else pickle.loads(lps).sid)

    def actual(self, w):
        m = self.mods[w]
        dbs = {}
        for d in self.dbs:
            e = m.DBS.get(d)
            dbs[d] = dict(us=0, rc=0, dc=0) if e is None else dict(
                us=_val_of('us', e.user_schema),
                rc=_val_of('rc', e.reflection_cache),
                dc=_val_of('dc', e.database_config))
        ls = m.LAST_STATE
        return dict(dbs=dbs, gs=_val_of('gs', m.GLOBAL_SCHEMA),
                    sc=_val_of('sc', m.INSTANCE_CONFIG),
                    last=dict(id=0 if ls is None else ls.sid,
                              dirty=False if ls is None else bool(ls.mutated)))

    def proj(self):
        return dict(belief={w: self.belief(w) for w in self.wnames},
                    actual={w: self.actual(w) for w in self.wnames},
                    cli=self.cli_sid, nstate=self.nstate)

    # ---- C17 asserted directly
    def check_call(self, kind, args, res):
        bad = []
        if kind == 'compile' and res['used'] is not None:
            for f in FIELDS:
                if res['used'][f] != args[f]:
                    bad.append(
                        f'compile used {f}#{res["used"][f]} but the caller '
                        f'supplied {f}#{args[f]}')
        if kind == 'tx' and res['used'] is not None:
            u = res['used']
            if u['sid'] != res['want_sid']:
                bad.append(f'compile_in_tx used connection state #{u["sid"]} '
                           f'but the caller passed #{res["want_sid"]}')
            if u['mutated']:
                bad.append('compile_in_tx used a connection state object that '
                           'an earlier rejected call had modified')
            if u['root'] != args['us']:
                bad.append(f'compile_in_tx used root user schema us#{u["root"]}'
                           f' but the caller supplied us#{args["us"]}')
        return bad

    def check_belief(self):
        bad = []
        for w in self.wnames:
            b, a = self.belief(w), self.actual(w)
            for d in self.dbs:
                if b['dbs'][d]['us'] != 0 and b['dbs'][d] != a['dbs'][d]:
                    bad.append(f'server believes worker {w} holds {b["dbs"][d]} '
                               f'for {d} but it holds {a["dbs"][d]}')
            for f in ('gs', 'sc'):
                if b[f] != a[f]:
                    bad.append(f'server believes worker {w} holds {f}#{b[f]} '
                               f'but it holds {f}#{a[f]}')
            if b['lps'] != 0 and (a['last']['id'] != b['lps'] or a['last']['dirty']):
                bad.append(f'server believes worker {w} keeps connection state '
                           f'#{b["lps"]} but it keeps {a["last"]}')
        return bad


# ------------------------------------------------------------------ histories
def run_history(cfg, hist, record=False):
    """hist: list of calls
         ('compile', w, d, {f:k}, fp, ok, intx) | ('tx', w, ok, dirties)
         | ('txend',) | ('respawn', w)
    Returns (events, violations)"""
    W = World(cfg['workers'], cfg['dbs'], cfg['nvals'])
    events, viol = [], []
    for n, h in enumerate(hist):
        k = h[0]
        bad = []
        if k == 'compile':
            _, w, d, a, fp, ok, intx = h
            res = W.do_compile(w, d, a, fp, ok, intx)
            bad += W.check_call('compile', a, res)
            if record:
                events.append(dict(a='Compile', w=w, d=d, args=a, x='-', ok=False, y=False))
                # a failure point only exists where something was transmitted
                events.append(dict(a='WorkerSync', w=w, d='-', args=a,
                                   x=fp if res['outcome'] == 'syncfail' else 'none',
                                   ok=False, y=False))
                if res['outcome'] != 'syncfail':
                    events.append(dict(a='WorkerCompile', w=w, d='-', args=a,
                                       x='-', ok=ok, y=intx))
                events.append(dict(a='Reply', w=w, d='-', args=a, x='-', ok=False, y=False))
        elif k == 'tx':
            _, w, ok, dirties = h
            if W.cli is None:
                continue
            pref = W.choose_tx_worker()
            if pref is not None:
                w = pref
            res = W.do_tx(w, ok, dirties)
            bad += W.check_call('tx', dict(us=res['us']), res)
            d = W.cli_db
            if record:
                za = dict(us=res['us'], rc=0, gs=0, dc=0, sc=0)
                events.append(dict(a='TxCompile', w=w, d=d, args=za, x='-', ok=False, y=False))
                events.append(dict(a='TxWorker', w=w, d='-', args=za, x='-', ok=ok, y=dirties))
                events.append(dict(a='TxReply', w=w, d='-', args=za, x='-', ok=False, y=False))
        elif k == 'txend':
            if W.cli is None:
                continue
            W.tx_end()
            if record:
                events.append(dict(a='TxEnd', w='-', d='-',
                                   args=dict(us=0, rc=0, gs=0, dc=0, sc=0),
                                   x='-', ok=False, y=False))
        elif k == 'respawn':
            W.spawn(h[1])
            if record:
                events.append(dict(a='Respawn', w=h[1], d='-',
                                   args=dict(us=0, rc=0, gs=0, dc=0, sc=0),
                                   x='-', ok=False, y=False))
        bad += W.check_belief()
        if record and events:
            pj = W.proj()
            events[-1]['s'] = pj
            events[-1]['hs'] = True
            for e in reversed(events[:-1]):
                if 's' in e:
                    break
                e['s'] = pj
                e['hs'] = False
        if bad:
            viol.append((n + 1, bad))
            break
    events = [e for e in events if 's' in e]
    return events, viol


def random_history(cfg, rnd, n):
    hist = []
    p_fail = rnd.choice([0.0, 0.15, 0.4])
    p_err = rnd.choice([0.0, 0.2])
    sticky = {}
    for _ in range(n):
        r = rnd.random()
        w = rnd.choice(cfg['workers'])
        d = rnd.choice(cfg['dbs'])
        if r < 0.6:
            # callers mostly re-present what they presented before (per db)
            a = dict(sticky.get(d) or {f: rnd.randint(1, cfg['nvals']) for f in FIELDS})
            for f in FIELDS:
                if rnd.random() < 0.3:
                    a[f] = rnd.randint(1, cfg['nvals'])
            sticky[d] = a
            for f in ('gs', 'sc'):      # instance-wide values are shared
                for dd in sticky:
                    sticky[dd][f] = a[f]
            fp = 'none'
            if rnd.random() < p_fail:
                fp = rnd.choice(FIELDS)
                if fp in ('rc', 'dc') and a[fp] == 2:
                    fp = 'none'       # an empty map always unpickles
            hist.append(('compile', w, d, a, fp, rnd.random() >= p_err,
                         rnd.random() < 0.4))
        elif r < 0.85:
            ok = rnd.random() >= 0.3
            hist.append(('tx', w, ok, rnd.random() < 0.6))
        elif r < 0.93:
            hist.append(('txend',))
        else:
            hist.append(('respawn', w))
    return hist


CFGS = {
    'a': dict(workers=['w1'], dbs=['a', 'b'], nvals=3),
    'b': dict(workers=['w1', 'w2'], dbs=['a', 'b'], nvals=3),
}


def _job(args):
    cname, seed, count, n, record = args
    cfg = CFGS[cname]
    out_ev, out_v = [], []
    for i in range(count):
        rnd = random.Random(seed + i)
        hist = random_history(cfg, rnd, n)
        ev, viol = run_history(cfg, hist, record=record)
        if record:
            out_ev.append(ev)
        for at, bad in viol:
            out_v.append(dict(cfg=cname, history=hist[:at], failed=bad))
    return cname, count, out_ev, out_v


# ------------------------------------------------------------------ TLC side
def tla_cfg(cfg, spec, extra=''):
    def S(xs):
        return '{' + ', '.join(json.dumps(x) for x in xs) + '}'
    return f'''SPECIFICATION {spec}
CONSTANTS
    Workers = {S(cfg['workers'])}
    DBs = {S(cfg['dbs'])}
    NVals = {cfg['nvals']}
    Falsy = {{2}}
    MaxStates = 1000000
    OrBug = FALSE
    EarlyCommit = FALSE
    DirtyBug = FALSE
    FieldVals <- FV_all
    Sequential = TRUE
{extra}
CHECK_DEADLOCK FALSE
'''


_RE_V = re.compile(r'<<"(ACCEPT|REJECT|INV)", (.*?)>>')


def validate_traces(cname, traces):
    d = lib.scratch('ctrace-')
    tf = os.path.join(d, 'traces.json')
    json.dump(traces, open(tf, 'w'))
    cf = os.path.join(d, 'T.cfg')
    open(cf, 'w').write(tla_cfg(CFGS[cname], 'TraceSpec', 'INVARIANT Report'))
    r = lib.run_tlc('TraceCompilerPool', cf, workers=8, timeout=3000,
                    env={'TRACE_FILE': tf}, deadlock=False)
    acc, rej, inv = set(), {}, []
    for m in _RE_V.finditer(r.output):
        parts = [x.strip().strip('"') for x in m.group(2).split(',')]
        if m.group(1) == 'ACCEPT':
            acc.add(int(parts[0]))
        elif m.group(1) == 'REJECT':
            rej[int(parts[0])] = max(int(parts[1]), rej.get(int(parts[0]), 0))
        else:
            inv.append((parts[0], int(parts[1]), int(parts[2])))
    rej = {t: l for t, l in rej.items() if t not in acc}
    missing = set(range(1, len(traces) + 1)) - acc - set(rej)
    if missing:
        raise lib.MachineryError(
            f'no verdict for traces {sorted(missing)[:5]}\n{r.output[-2000:]}')
    return dict(accepted=acc, rejected=rej, inv=inv, states=r.distinct)


def _parse_act(txt):
    """act = <<"Compile", "w1", "a", [us |-> 1, ...]>>"""
    out = []
    for m in re.finditer(r'/\\ act = (<<.*?>>)\s*(?=/\\|\Z)', txt, re.S):
        out.append(lib.parse_tla(m.group(1)))
    return out


def tlc_behaviours(cname, num, depth, seed):
    d = lib.scratch('csim-')
    cf = os.path.join(d, 'S.cfg')
    open(cf, 'w').write(tla_cfg(CFGS[cname], 'Spec'))
    base = os.path.join(d, 'tr')
    lib.run_tlc('CompilerPool', cf, workers=1, timeout=1200,
                simulate=f'file={base},num={num}', depth=depth, seed=seed,
                deadlock=False)
    behs = []
    for fn in sorted(glob.glob(base + '*')):
        steps = lib.parse_sim_trace(fn)
        behs.append(steps)
    return behs


def replay_behaviour(cname, steps):
    """step TLC's behaviour through the real code; compare states after each
    completed call.  Returns (ncalls, violations, drifts)"""
    cfg = CFGS[cname]
    W = World(cfg['workers'], cfg['dbs'], cfg['nvals'])
    pending = {}
    viol, drift = [], []
    ncalls = 0
    hist = []
    for (name, st) in steps:
        act = st.get('act')
        if not act or act[0] == 'Init':
            continue
        a0 = act[0]
        bad = []
        done = False
        if a0 == 'Compile':
            pending[act[1]] = dict(d=act[2], a=dict(act[3]), fp='none', ok=True,
                                   intx=False)
        elif a0 == 'WorkerSync':
            pending[act[1]]['fp'] = act[2]
        elif a0 == 'WorkerCompile':
            pending[act[1]].update(ok=act[2], intx=act[3])
        elif a0 == 'Reply':
            q = pending.pop(act[1])
            hist.append(('compile', act[1], q['d'], q['a'], q['fp'], q['ok'], q['intx']))
            res = W.do_compile(act[1], q['d'], q['a'], q['fp'], q['ok'], q['intx'])
            bad += W.check_call('compile', q['a'], res)
            done = True
        elif a0 == 'TxCompile':
            pending[act[1]] = dict(ok=True, dirties=False)
        elif a0 == 'TxWorker':
            pending[act[1]].update(ok=act[2], dirties=act[3])
        elif a0 == 'TxReply':
            q = pending.pop(act[1])
            hist.append(('tx', act[1], q['ok'], q['dirties']))
            if W.cli is None:
                drift.append(dict(history=list(hist), worker=act[1],
                                  spec='transaction state held', code='none'))
                return ncalls, viol, drift
            res = W.do_tx(act[1], q['ok'], q['dirties'])
            bad += W.check_call('tx', dict(us=res['us']), res)
            done = True
        elif a0 == 'TxEnd':
            hist.append(('txend',))
            W.tx_end()
            done = True
        elif a0 == 'Respawn':
            hist.append(('respawn', act[1]))
            W.spawn(act[1])
            done = True
        if not done:
            continue
        ncalls += 1
        bad += W.check_belief()
        if bad:
            viol.append(dict(cfg=cname, history=list(hist), failed=bad))
            break
        # compare with the spec state
        p = W.proj()
        for w in cfg['workers']:
            sb, sa = st['belief'][w], st['actual'][w]
            mine_b, mine_a = p['belief'][w], p['actual'][w]
            exp_b = dict(dbs={d: dict(sb['dbs'][d]) for d in cfg['dbs']},
                         gs=sb['gs'], sc=sb['sc'], lps=sb['lps'])
            exp_a = dict(dbs={d: dict(sa['dbs'][d]) for d in cfg['dbs']},
                         gs=sa['gs'], sc=sa['sc'],
                         last=dict(id=sa['last']['id'], dirty=sa['last']['dirty']))
            if exp_b != mine_b or exp_a != mine_a:
                drift.append(dict(history=list(hist), worker=w,
                                  spec=dict(belief=exp_b, actual=exp_a),
                                  code=dict(belief=mine_b, actual=mine_a)))
                return ncalls, viol, drift
    return ncalls, viol, drift


def _replay_job(args):
    cname, behs = args
    n = 0
    V, D = [], []
    for b in behs:
        c, v, d = replay_behaviour(cname, b)
        n += c
        V += v
        D += d
    return len(behs), n, V, D


def report(rep, vs):
    for v in vs:
        rep.violation(
            'hist:' + json.dumps([v['cfg'], v['history']], sort_keys=True),
            f"config {v['cfg']}: after call {len(v['history'])}: "
            + '; '.join(v['failed'][:2]),
            dict(cfg=v['cfg'], config=CFGS[v['cfg']], history=v['history'],
                 failed=v['failed'],
                 how="calls: ('compile', worker, db, {field: identity}, "
                     "failing_field|'none', compile_ok, starts_tx) | ('tx', "
                     "worker, ok, mutates_before_reject) | "
                     "('txend',) | ('respawn', worker); identity 2 of rc/dc "
                     "is an EMPTY map"))


def replay(path, rep):
    d = json.load(open(path))['replay']
    hist = []
    for h in d['history']:
        h = list(h)
        hist.append(tuple(h))
    ev, viol = run_history(d['config'], hist)
    for at, bad in viol:
        print('call', at, bad)
        report(rep, [dict(cfg=d['cfg'], history=d['history'][:at], failed=bad)])
    if not viol:
        print('history ran clean')


def run(tier, seed, rep):
    import multiprocessing as mp
    quick = tier == 'quick'
    mc = {}
    for c in (['CompilerPool.cfg', 'CompilerPool_tx.cfg'] if quick else
              ['CompilerPool.cfg', 'CompilerPool_tx.cfg', 'CompilerPool_v3.cfg']):
        r = lib.run_tlc('CompilerPool', c, timeout=3000, deadlock=False)
        if r.violated:
            raise lib.MachineryError(
                f'{c}: {r.violated} violated in the model\n{r.output[-3000:]}')
        mc[c] = r.summary()
    # sensitivity: the three historical defects must be found by TLC
    sens = {}
    for c in ('CompilerPool_bug1.cfg', 'CompilerPool_bug2.cfg', 'CompilerPool_bug3.cfg'):
        r = lib.run_tlc('CompilerPool', c, timeout=600, deadlock=False)
        sens[c] = r.violated
        if not r.violated:
            raise lib.MachineryError(f'{c}: TLC no longer finds the seeded defect')

    stats = {}
    samples = []
    traces = {k: [] for k in CFGS}
    with mp.Pool(lib.NCPU) as pool:
        nh = 4000 if quick else 80000
        jobs = []
        for cname in CFGS:
            per = nh // (lib.NCPU * 2)
            for j in range(lib.NCPU * 2):
                jobs.append((cname, seed * 7919 + j * per, per, 30 if quick else 60,
                             j < 2))
        total = 0
        for cname, cnt, evs, vs in pool.imap_unordered(_job, jobs):
            total += cnt
            report(rep, vs)
            traces[cname].extend(evs[:150 if quick else 1500])
        stats['random_histories'] = total

        # spec -> code
        nb = 400 if quick else 5000
        rp = {}
        for cname in CFGS:
            behs = tlc_behaviours(cname, nb, 40, seed)
            chunks = [behs[i::lib.NCPU] for i in range(lib.NCPU)]
            nbeh = ncalls = 0
            for b, c, V, D in pool.imap_unordered(
                    _replay_job, [(cname, ch) for ch in chunks if ch]):
                nbeh += b
                ncalls += c
                report(rep, V)
                for dd in D[:3]:
                    rep.spec_drift(
                        f'config {cname}: after {len(dd["history"])} calls the '
                        f'code state differs from CompilerPool.tla for worker '
                        f'{dd["worker"]}: spec={dd["spec"]} code={dd["code"]} '
                        f'last={dd["history"][-1]}')
            rp[cname] = dict(behaviours=nbeh, calls=ncalls)
            if behs:
                samples.append(dict(cfg=cname, tlc_behaviour_actions=[
                    repr(st.get('act')) for _, st in behs[0][:10]]))
        stats['tlc_behaviours_replayed'] = rp

    tv = {}
    validated = 0
    for cname, trs in traces.items():
        trs = [t for t in trs if t]
        if not trs:
            continue
        res = validate_traces(cname, trs)
        validated += len(res['accepted'])
        tv[cname] = dict(traces=len(trs), accepted=len(res['accepted']),
                         rejected=len(res['rejected']), states=res['states'])
        for (name, t, l) in res['inv'][:5]:
            rep.violation(
                f'traceinv:{name}:{cname}:' + json.dumps(trs[t - 1][:l])[:2000],
                f'{name} is false in the spec state TLC inferred for a recorded '
                f'history (config {cname}, event {l})',
                dict(cfg=cname, invariant=name, trace=trs[t - 1][:l]))
        for t, l in list(res['rejected'].items())[:5]:
            rep.spec_drift(f'config {cname}: recorded history is not a behaviour '
                           f'of CompilerPool.tla from event {l} '
                           f'({trs[t-1][l-1]["a"]})')
        samples.append(dict(cfg=cname, recorded_events=[
            dict(a=e['a'], w=e['w'], d=e['d'], x=e['x'], ok=e['ok'])
            for e in trs[0][:10]]))
    stats['trace_validation'] = tv

    cov = dict(
        states=sum(v['distinct_states'] for v in mc.values()),
        transitions=sum(v['states_generated'] for v in mc.values()),
        traces_validated_against_impl=validated + sum(
            v['behaviours'] for v in stats['tlc_behaviours_replayed'].values()),
        samples=samples, model_checking=mc, seeded_defects_found_by_tlc=sens,
        conformance=stats,
        evaluations=stats['random_histories'],
        distinct_nontrivial=stats['random_histories'],
        rule='one case = one seeded random history of pool calls (distinct '
             'seeds) run on the real AbstractPool/BaseWorker/worker.py with '
             'C17 asserted after every call')
    return dict(level='model_checking', coverage=cov, assumptions=[
        'transport (amsg sockets, process boundaries) replaced by an in-process '
        'hand-over of the same pickled messages',
        'the Compiler is a recorder: what it is handed is the observation',
        lib.SHIM_TRUST])
