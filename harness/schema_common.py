"""Shared machinery for the schema properties (C02, C03, C05, C10, C11):
rendering of SchemaDDL.tla states as DDL / SDL, a fresh real compiler
context, generic projection of a real user schema, abstraction of a real
schema back to the model's terms, capture and interpretation of the dbops
table commands a DDL statement emits."""
from __future__ import annotations

import re

import lib

_S = {}


def S():
    if _S:
        return _S
    import boot
    from edb.server.compiler import compiler as C
    from edb import edgeql, errors
    from edb.schema import schema as s_schema, objtypes, links, properties
    from edb.schema import pointers, objects as so, ddl as s_ddl
    from edb.pgsql import types as pgtypes, common as pgcommon
    from edb.pgsql.dbops import tables as T
    boot.compiler()
    _S.update(boot=boot, C=C, edgeql=edgeql, errors=errors, s_schema=s_schema,
              objtypes=objtypes, links=links, properties=properties,
              pointers=pointers, so=so, s_ddl=s_ddl, pgtypes=pgtypes,
              pgcommon=pgcommon, T=T)
    _install_capture()
    return _S


# ------------------------------------------------------------------ rendering
def _default_for(r, sch=None):
    if r['kind'] == 'link':
        return f'(select default::{r["target"]} limit 1)'
    return "('x')" if r['target'] == 'str' else '(0)'


def _computed_expr(r):
    if r['kind'] == 'link':
        return (f'(select default::{r["target"]})' if r['multi']
                else f'(select default::{r["target"]} limit 1)')
    base = "'c'" if r['target'] == 'str' else '1'
    return '({%s, %s})' % (base, base.replace('c', 'd').replace('1', '2')) \
        if r['multi'] else f'({base})'


def ptr_decl(p, r, sdl):
    """body of a pointer declaration"""
    kw = 'link' if r['kind'] == 'link' else 'property'
    create = '' if sdl else 'create '
    if r['computed']:
        card = 'multi ' if r['multi'] else ''
        return f'{create}{card}{kw} {p} := {_computed_expr(r)};'
    mods = ('required ' if r['req'] else '') + ('multi ' if r['multi'] else '')
    tgt = f'default::{r["target"]}' if r['kind'] == 'link' else r['target']
    body = []
    if r['lprop']:
        body.append(f'{create}property lp -> str;')
    if r['excl']:
        body.append(f'{create}constraint exclusive;')
    b = (' { ' + ' '.join(body) + ' }') if body else ''
    return f'{create}{mods}{kw} {p} -> {tgt}{b};'


def render_ddl(op, sch):
    """DDL text of a model operation applied in model state `sch` (before)"""
    k = op[0]
    if k == 'CreateType':
        _, t, abs_, b = op
        return (f'create {"abstract " if abs_ else ""}type default::{t}'
                + (f' extending default::{b}' if b != '-' else ''))
    if k == 'DropType':
        return f'drop type default::{op[1]}'
    if k == 'SetAbstract':
        return f'alter type default::{op[1]} ' + ('set abstract' if op[2] else 'reset abstract')
    if k == 'Rebase':
        _, t, b = op
        old = sch[t]['base']
        parts = []
        if old != '-':
            parts.append(f'drop extending default::{old};')
        if b != '-':
            parts.append(f'extending default::{b} last;')
        return f'alter type default::{t} {{ ' + ' '.join(parts) + ' }'
    if k == 'AddPtr':
        _, t, p, r = op
        return f'alter type default::{t} {{ {ptr_decl(p, r, False)} }}'
    if k == 'RenameType':
        return f'alter type default::{op[1]} rename to default::{op[2]}'
    t, p = op[1], op[2]
    r = sch[t]['ptrs'][p]
    kw = None if r is None else ('link' if r['kind'] == 'link' else 'property')
    if k == 'DropPtr':
        return f'alter type default::{t} drop {kw} {p}'
    if k == 'SetMulti':
        if op[3]:
            return f'alter type default::{t} alter {kw} {p} set multi'
        return (f'alter type default::{t} alter {kw} {p} set single using '
                f'(select .{p} limit 1)')
    if k == 'SetRequired':
        if op[3]:
            return (f'alter type default::{t} alter {kw} {p} set required using '
                    f'{_default_for(r)}')
        return f'alter type default::{t} alter {kw} {p} set optional'
    if k == 'SetLinkProp':
        return (f'alter type default::{t} alter link {p} '
                + ('create property lp -> str' if op[3] else 'drop property lp'))
    if k == 'SetExclusive':
        return (f'alter type default::{t} alter {kw} {p} '
                + ('create constraint exclusive' if op[3] else 'drop constraint exclusive'))
    if k == 'SetComputed':
        if op[3]:
            return f'alter type default::{t} alter {kw} {p} using {_computed_expr(r)}'
        return f'alter type default::{t} alter {kw} {p} reset expression'
    if k == 'RenameType':
        return f'alter type default::{op[1]} rename to default::{op[2]}'
    if k == 'RenamePtr':
        return f'alter type default::{t} alter {kw} {p} rename to {op[3]}'
    raise ValueError(op)


def render_sdl(sch, order=None, ptr_order=None):
    """SDL document for a model state; `order` permutes the type declarations,
    ptr_order(t, names) the members of a type body.  A str is a hand-written
    SDL document (schema_features.py) and is returned as it is."""
    if isinstance(sch, str):
        return sch
    if isinstance(sch, tuple) and sch and sch[0] == 'DDL':
        return 'DDL: ' + sch[1]
    names = [t for t in sorted(sch) if sch[t]['ex']]
    if order is not None:
        names = [names[i] for i in order]
    decls = []
    for t in names:
        ty = sch[t]
        ptrs = [p for p in sorted(ty['ptrs']) if ty['ptrs'][p]['ex']]
        if ptr_order is not None:
            ptrs = ptr_order(t, ptrs)
        body = ' '.join(ptr_decl(p, ty['ptrs'][p], True) for p in ptrs)
        decls.append(
            ('abstract ' if ty['abstract'] else '') + f'type {t}'
            + (f' extending {ty["base"]}' if ty['base'] != '-' else '')
            + (' { ' + body + ' }' if body else '') + ';')
    return 'module default { ' + ' '.join(decls) + ' }'


# ------------------------------------------------------------------ real side
def new_ctx(schema=None):
    st = S()
    ctx = st['boot'].new_ctx(user_schema=schema)
    if schema is None:
        compile_stmt(ctx, 'create module default')
    return ctx


def compile_stmt(ctx, text):
    st = S()
    return st['C'].compile(ctx=ctx, source=st['edgeql'].Source.from_string(text))


def user_schema(ctx):
    return ctx.state.current_tx().get_user_schema()


def migrate(ctx, sdl):
    """START MIGRATION TO {sdl}; POPULATE MIGRATION; COMMIT MIGRATION"""
    compile_stmt(ctx, 'start migration to { ' + sdl + ' }')
    compile_stmt(ctx, 'populate migration')
    compile_stmt(ctx, 'commit migration')
    return user_schema(ctx)


SKIP_FIELDS = {'id', 'backend_id', 'backend_name', 'builtin', 'internal', 'span', 'sourcectx',
               'script', 'message', 'generated_by', 'sdl', 'parents'}
SKIP_CLASSES = {'Migration'}


def _render(val, schema, so):
    from edb.schema import expr as s_expr
    if val is None:
        return None
    if isinstance(val, so.Object):
        try:
            return f'<{type(val).__name__} {val.get_name(schema)}>'
        except Exception:
            return f'<{type(val).__name__} DANGLING {val.id}>'
    if isinstance(val, so.ObjectCollection):
        items = [_render(x, schema, so) for x in val.objects(schema)]
        if isinstance(val, (so.ObjectList,)) or 'List' in type(val).__name__:
            return items
        return sorted(map(str, items))
    if isinstance(val, s_expr.Expression):
        return 'EXPR ' + re.sub(r'\s+', ' ', val.text)
    if isinstance(val, s_expr.ExpressionList):
        return ['EXPR ' + re.sub(r'\s+', ' ', x.text) for x in val]
    if isinstance(val, s_expr.ExpressionDict):
        return {k: 'EXPR ' + re.sub(r'\s+', ' ', x.text) for k, x in val.items()}
    if isinstance(val, (list, tuple)):
        return [_render(x, schema, so) for x in val]
    if isinstance(val, (set, frozenset)):
        return sorted(str(_render(x, schema, so)) for x in val)
    if isinstance(val, dict):
        return {str(k): _render(v, schema, so) for k, v in val.items()}
    if 'Set' in type(val).__name__ and hasattr(val, '__iter__'):
        # checked / frozen set types (inherited_fields, ...): order-free
        return sorted(str(_render(x, schema, so)) for x in val)
    return str(val)


def proj(schema):
    """complete, name-based projection of the user part of a real schema"""
    st = S()
    so = st['so']
    full = st['s_schema'].ChainedSchema(
        st['boot'].std_schema(), schema, st['s_schema'].EMPTY_SCHEMA)
    out = {}
    for o in schema.get_objects(exclude_stdlib=False):
        cls = type(o)
        if cls.__name__ in SKIP_CLASSES:
            continue
        name = str(o.get_name(full))
        if name == 'default' and cls.__name__ == 'Module':
            pass
        rec = {}
        for fn, field in cls.get_schema_fields().items():
            if fn in SKIP_FIELDS:
                continue
            try:
                v = o.get_explicit_field_value(full, fn, None)
            except Exception as e:
                v = f'?unreadable: {type(e).__name__}'
            if v is None:
                continue
            r = _render(v, full, so)
            dflt = getattr(field, 'default', None)
            if isinstance(v, (bool, int, str)) and dflt is not None and v == dflt:
                # an explicit value equal to the field's default (owned=False
                # after DROP OWNED) is the same schema as an unset field
                continue
            if r in ([], (), {}, ''):
                # an emptied collection (e.g. the constraint index of a
                # pointer whose last constraint was dropped) is the same
                # schema as a collection that was never set
                continue
            rec[fn] = r
        out[f'{cls.__name__} {name}'] = rec
    return out


def proj_diff(a, b, limit=6):
    diffs = []
    for k in sorted(set(a) | set(b)):
        if k not in a:
            diffs.append(f'missing: {k}')
        elif k not in b:
            diffs.append(f'left over: {k}')
        elif a[k] != b[k]:
            for f in sorted(set(a[k]) | set(b[k])):
                if a[k].get(f) != b[k].get(f):
                    diffs.append(f'{k}.{f}: {a[k].get(f)!r} != {b[k].get(f)!r}')
        if len(diffs) >= limit:
            break
    return diffs


def abstract(schema):
    """real user schema -> the model's record shape (for the modelled
    features only)"""
    st = S()
    full = st['s_schema'].ChainedSchema(
        st['boot'].std_schema(), schema, st['s_schema'].EMPTY_SCHEMA)
    out = {}
    for o in schema.get_objects(type=st['objtypes'].ObjectType):
        nm = o.get_name(full)
        if nm.module != 'default' or o.is_view(full) or o.is_compound_type(full):
            continue
        bases = [b.get_name(full).name for b in o.get_bases(full).objects(full)
                 if b.get_name(full).module == 'default']
        ptrs = {}
        for pn, ptr in o.get_pointers(full).items(full):
            pn = str(pn)
            if pn in ('id', '__type__'):
                continue
            if not ptr.get_owned(full) if hasattr(ptr, 'get_owned') else False:
                continue
            is_link = isinstance(ptr, st['links'].Link)
            tgt = ptr.get_target(full)
            excl = any('exclusive' in str(c.get_name(full))
                       for c in ptr.get_constraints(full).objects(full)
                       if c.get_owned(full))
            lprop = is_link and any(
                str(n) == 'lp' for n in ptr.get_pointers(full).keys(full))
            ptrs[pn] = dict(
                ex=True, kind='link' if is_link else 'prop',
                multi=str(ptr.get_cardinality(full)) in ('Many', 'MANY') or
                ptr.get_cardinality(full).is_multi(),
                # requiredness of a computed pointer is inferred, not declared
                req=bool(ptr.get_required(full)) and ptr.get_expr(full) is None,
                target=(tgt.get_name(full).name if is_link
                        else tgt.get_name(full).name),
                computed=ptr.get_expr(full) is not None,
                lprop=bool(lprop), excl=bool(excl))
        out[nm.name] = dict(ex=True, abstract=bool(o.get_abstract(full)),
                            base=bases[0] if bases else '-', ptrs=ptrs)
    return out


def model_state(sch):
    """normalise a parsed TLA+ schema state for comparison with abstract()"""
    out = {}
    for t, ty in sch.items():
        if not ty['ex']:
            continue
        out[t] = dict(ex=True, abstract=ty['abstract'], base=ty['base'],
                      ptrs={p: dict(r) for p, r in ty['ptrs'].items() if r['ex']})
    return out


# ------------------------------------------------------------------ dbops capture
CAPTURE = []        # (op, enclosing conditions, enclosing negative conditions)
_COND_STACK = []


def _install_capture():
    T = _S['T']
    from edb.pgsql.dbops import base as B
    for cls in (T.CreateTable, T.DropTable, T.AlterTable):
        if getattr(cls, '_verif_wrapped', False):
            continue
        orig = cls.generate

        def gen(self, block, _orig=orig):
            conds = [c for lvl in _COND_STACK for c in lvl[0]]
            nconds = [c for lvl in _COND_STACK for c in lvl[1]]
            CAPTURE.append((self, conds, nconds))
            return _orig(self, block)
        cls.generate = gen
        cls._verif_wrapped = True
    # command groups carry conditions for everything they contain
    if not getattr(B.CommandGroup, '_verif_wrapped', False):
        orig_g = B.CommandGroup.generate

        def ggen(self, block, _orig=orig_g):
            _COND_STACK.append((list(self.conditions or ()),
                                list(self.neg_conditions or ())))
            try:
                return _orig(self, block)
            finally:
                _COND_STACK.pop()
        B.CommandGroup.generate = ggen
        B.CommandGroup._verif_wrapped = True


class Catalog:
    """interprets the captured table commands"""

    def __init__(self):
        self.tables = {}      # name tuple -> set(column names)

    def copy(self):
        c = Catalog()
        c.tables = {k: set(v) for k, v in self.tables.items()}
        return c

    def _cond(self, c):
        T = _S['T']
        if isinstance(c, str):
            raise lib.MachineryError(f'catalog interpreter: textual condition {c!r}')
        if isinstance(c, T.TableExists):
            return tuple(c.name) in self.tables
        if isinstance(c, T.ColumnExists):
            return tuple(c.table_name) in self.tables and \
                c.column_name in self.tables[tuple(c.table_name)]
        raise lib.MachineryError(f'catalog interpreter: unknown condition {c!r}')

    def _enabled(self, conds, nconds):
        for c in conds or ():
            if not self._cond(c):
                return False
        for c in nconds or ():
            if self._cond(c):
                return False
        return True

    def apply(self, ops):
        T = _S['T']
        problems = []
        for op, oconds, onconds in ops:
            if not self._enabled(oconds, onconds):
                continue
            if not self._enabled(getattr(op, 'conditions', ()),
                                 getattr(op, 'neg_conditions', ())):
                continue
            if isinstance(op, T.CreateTable):
                name = tuple(op.table.name)
                if name in self.tables:
                    if not getattr(op, 'if_not_exists', False):
                        problems.append(f'CREATE TABLE {name}: already exists')
                    continue
                self.tables[name] = {c.name for c in op.table.iter_columns()}
            elif isinstance(op, T.DropTable):
                name = tuple(op.name)
                if name not in self.tables:
                    problems.append(f'DROP TABLE {name}: no such table')
                else:
                    del self.tables[name]
            elif isinstance(op, T.AlterTable):
                name = tuple(op.name)
                for frag in op.ops:
                    f, c, nc = frag if isinstance(frag, tuple) else (frag, (), ())
                    if not self._enabled(c, nc):
                        continue
                    if isinstance(f, T.AlterTableAddColumn):
                        if name not in self.tables:
                            problems.append(f'ADD COLUMN on missing table {name}')
                        elif f.attribute.name in self.tables[name]:
                            problems.append(f'ADD COLUMN {f.attribute.name}: exists')
                        else:
                            self.tables[name].add(f.attribute.name)
                    elif isinstance(f, T.AlterTableDropColumn):
                        if name not in self.tables or \
                                f.attribute.name not in self.tables[name]:
                            problems.append(
                                f'DROP COLUMN {f.attribute.name} on {name}: missing')
                        else:
                            self.tables[name].discard(f.attribute.name)
                    elif isinstance(f, (T.AlterTableAddParent, T.AlterTableDropParent)):
                        pass
                    elif name not in self.tables:
                        problems.append(
                            f'{type(f).__name__} on missing table {name}')
        return problems


def storage_of_catalog(cat, schema):
    """catalog -> the model's storage items, through the real schema's ids"""
    st = S()
    full = st['s_schema'].ChainedSchema(
        st['boot'].std_schema(), schema, st['s_schema'].EMPTY_SCHEMA)
    import uuid as _uuid
    items = set()
    unknown = []

    def obj_of(name):
        try:
            return full.get_by_id(_uuid.UUID(name), default=None)
        except (ValueError, AttributeError):
            return None
    for (sname, tname), cols in cat.tables.items():
        o = obj_of(tname)
        if o is None:
            unknown.append(f'table {tname} belongs to no schema object')
            continue
        if isinstance(o, st['objtypes'].ObjectType):
            tn = o.get_name(full).name
            items.add(('table', tn))
            for c in cols:
                if c in ('id', '__type__'):
                    continue
                p = obj_of(c)
                if p is None or not isinstance(p, st['pointers'].Pointer):
                    unknown.append(f'column {c} of table {tn} belongs to no pointer')
                    continue
                pn = str(p.get_shortname(full).name)
                if pn in ('id', '__type__'):
                    continue
                src = p.get_source(full)
                if src is None or src.id != o.id:
                    unknown.append(f'column {pn} in table {tn} belongs to a '
                                   f'pointer of another type')
                    continue
                items.add(('column', tn, pn))
        elif isinstance(o, st['pointers'].Pointer):
            src = o.get_source(full)
            tn = src.get_name(full).name if src is not None else '?'
            pn = str(o.get_shortname(full).name)
            items.add(('linktable', tn, pn))
            for c in cols:
                if c in ('source', 'target'):
                    continue
                p = obj_of(c)
                if p is None:
                    unknown.append(f'column {c} of link table {tn}.{pn} belongs '
                                   f'to no pointer')
                    continue
                if str(p.get_shortname(full).name) in ('source', 'target'):
                    continue
                items.add(('linkprop', tn, pn))
        else:
            unknown.append(f'table {tname} belongs to a {type(o).__name__}')
    return items, unknown


def storage_expected_by_query_compiler(schema):
    """what the query compiler will address, from its own helper functions"""
    st = S()
    full = st['s_schema'].ChainedSchema(
        st['boot'].std_schema(), schema, st['s_schema'].EMPTY_SCHEMA)
    pgtypes, pgcommon = st['pgtypes'], st['pgcommon']
    tables = {}
    for o in schema.get_objects(type=st['objtypes'].ObjectType):
        nm = o.get_name(full)
        if nm.module != 'default' or o.is_view(full) or o.is_compound_type(full):
            continue
        tname = tuple(pgcommon.get_backend_name(full, o, catenate=False))
        tables.setdefault(tname, set())
        for pn, ptr in o.get_pointers(full).items(full):
            if ptr.is_pure_computable(full) or str(pn) in ('id', '__type__'):
                continue
            info = pgtypes.get_pointer_storage_info(ptr, schema=full, link_bias=False)
            if info.table_type == 'ObjectType':
                tables.setdefault(tuple(info.table_name), set()).add(info.column_name)
            if pgtypes.has_table(ptr, full):
                linfo = pgtypes.get_pointer_storage_info(ptr, schema=full, link_bias=True)
                lt = tables.setdefault(tuple(linfo.table_name), set())
                lt.update({'source', 'target'})
                if isinstance(ptr, st['links'].Link):
                    for lpn, lp in ptr.get_pointers(full).items(full):
                        if str(lpn) in ('source', 'target') or lp.is_pure_computable(full):
                            continue
                        li = pgtypes.get_pointer_storage_info(lp, schema=full)
                        tables.setdefault(tuple(li.table_name), set()).add(li.column_name)
    return tables
