"""C20 - dependency ordering (edb/common/topological.py).

Spec: spec/Toposort.tla (the DFS with explicit stack and exception
propagation; the input graph is chosen in Init).  TLC checks the C20
predicates on every graph of the bounded universes and prints the unique
outcome per graph; this harness runs the REAL sort_ex / sort / normalize on
every one of those graphs, compares outcome with the spec's (mismatch with
all predicates true = SPEC-DRIFT) and asserts the predicates directly on
the real output (failure = VIOLATION).  It then goes beyond TLC's universe
with the predicate assertions alone.
"""
from __future__ import annotations

import itertools
import json
import multiprocessing as mp
import os
import random
import re
import subprocess
import sys
import time

import lib

sys.path.insert(0, lib.REPO)

KINDS = {'h': 'deps', 'w': 'weak_deps', 'm': 'merge', 'c': 'loop_control'}


# ------------------------------------------------------------------ real code
def _mods():
    from edb.common import topological as T
    from edb.common.ordered import OrderedSet
    return T, OrderedSet


def build_graph(n, kseq, dseq, rev, keyf=lambda i: i):
    """kseq: row-major kinds for pairs (i,j), i,j in 1..n."""
    T, OrderedSet = _mods()
    g = {}
    rng = range(n, 0, -1) if rev else range(1, n + 1)
    for i in range(1, n + 1):
        per = {k: OrderedSet() for k in 'hwmc'}
        for j in rng:
            k = kseq[(i - 1) * n + (j - 1)]
            if k == 'b':      # listed in both deps and weak_deps
                per['h'].add(keyf(j))
                per['w'].add(keyf(j))
            elif k != 'n':
                per[k].add(keyf(j))
        if dseq and dseq[i - 1] != 'n':
            per[dseq[i - 1]].add(keyf(0))     # key 0 is never in the graph
        g[keyf(i)] = T.DepGraphEntry(
            keyf(i),
            deps=per['h'], weak_deps=per['w'],
            merge=(per['m'] if per['m'] else None),
            loop_control=per['c'])
    return g


def real_outcome(n, kseq, dseq, allow, rev):
    T, _ = _mods()
    g = build_graph(n, kseq, dseq, rev)
    try:
        out = tuple(k for k, _ in T.sort_ex(g, allow_unresolved=allow))
        return ('ok', out, 0, ())
    except T.CycleError as e:
        return ('cycle', (), e.item, tuple(e.path))
    except T.UnresolvedReferenceError:
        return ('unres', (), 0, ())


def _cyclic(n, edges):
    adj = {i: [] for i in range(1, n + 1)}
    for a, b in edges:
        adj[a].append(b)
    color = {}

    def dfs(u):
        color[u] = 1
        for v in adj[u]:
            c = color.get(v)
            if c == 1:
                return True
            if c is None and dfs(v):
                return True
        color[u] = 2
        return False
    return any(dfs(i) for i in range(1, n + 1) if i not in color)


def predicates(n, kseq, dseq, allow, rev, outcome):
    """C20's predicates on a REAL outcome.  Returns list of failed names."""
    res, order, item, path = outcome
    E = {k: [] for k in 'hwmc'}
    for i in range(1, n + 1):
        for j in range(1, n + 1):
            k = kseq[(i - 1) * n + (j - 1)]
            if k == 'b':
                E['h'].append((i, j))
                E['w'].append((i, j))
            elif k != 'n':
                E[k].append((i, j))
    hard = E['h'] + E['m']
    ctrl = E['c']
    weak = E['w']
    bad = []
    dangling = bool(dseq) and any(d != 'n' for d in dseq)
    if dangling and not allow:
        if res != 'unres':
            bad.append('undefined reference not reported')
        return bad
    if res == 'unres':
        bad.append('UnresolvedReferenceError although every reference '
                   'resolves or allow_unresolved')
        return bad
    hc = _cyclic(n, hard)
    if hc and res != 'cycle':
        bad.append('hard cycle not reported')
    if res == 'cycle' and not _cyclic(n, hard + ctrl):
        bad.append('cycle reported although hard dependencies are acyclic')
    if res == 'ok':
        if sorted(order) != list(range(1, n + 1)):
            bad.append('not every item exactly once')
            return bad
        pos = {x: k for k, x in enumerate(order)}
        if any(pos[j] >= pos[i] for i, j in hard):
            bad.append('hard dependency violated')
        if not _cyclic(n, hard + weak + ctrl):
            if any(pos[j] >= pos[i] for i, j in weak):
                bad.append('soft dependency not honoured although '
                           'hard+soft is acyclic')
    return bad


def aux_api_checks(n, kseq, dseq, allow, rev, outcome):
    """sort() and normalize() must agree with sort_ex()."""
    T, _ = _mods()
    bad = []
    res, order, _, _ = outcome
    g = build_graph(n, kseq, dseq, rev)
    try:
        s = T.sort(g, allow_unresolved=allow)
        if res != 'ok' or tuple(s) != tuple(order):
            bad.append('sort() disagrees with sort_ex()')
    except (T.CycleError, T.UnresolvedReferenceError):
        if res == 'ok':
            bad.append('sort() raises but sort_ex() does not')
    if res == 'ok' and not (dseq and any(d != 'n' for d in dseq)):
        calls = []
        try:
            vals = list(T.normalize(
                g, lambda item, parent, **kw: calls.append((item, parent))))
        except KeyError:
            bad.append('normalize(): merge parent not yet merged')
        else:
            if tuple(vals) != tuple(order):
                bad.append('normalize() order differs from sort_ex()')
            pos = {x: k for k, x in enumerate(order)}
            for item, parent in calls:
                if pos[parent] >= pos[item]:
                    bad.append('normalize(): merged before its parent')
    return bad


# ------------------------------------------------------------------ TLC side
_OUT = re.compile(
    r'^"OUT <<(\d+), <<(.*?)>>, <<(.*?)>>, (TRUE|FALSE), (TRUE|FALSE), '
    r'\\"(\w+)\\", <<(.*?)>>, (\d+), <<(.*?)>>>>"$')


def _ints(s):
    s = s.strip()
    return tuple(int(x) for x in s.split(',')) if s else ()


def _strs(s):
    return tuple(x.strip().strip('\\"') for x in s.split(',')) if s.strip() else ()


def parse_out(output):
    rows = []
    for line in output.splitlines():
        if not line.startswith('"OUT '):
            continue
        m = _OUT.match(line)
        if not m:
            raise lib.MachineryError(f'cannot parse OUT line {line[:200]}')
        n = int(m.group(1))
        res = m.group(6)
        # the partial `order` at the moment of a failure is not observable
        rows.append((n, _strs(m.group(2)), _strs(m.group(3)),
                     m.group(4) == 'TRUE', m.group(5) == 'TRUE',
                     (res, _ints(m.group(7)) if res == 'ok' else (),
                      int(m.group(8)), _ints(m.group(9)))))
    return rows


def _check_rows(rows):
    """worker: compare spec outcome with real outcome + predicates."""
    viol, drift, ncyc, nweak = [], [], 0, 0
    for (n, kseq, dseq, allow, rev, spec_out) in rows:
        real = real_outcome(n, kseq, dseq, allow, rev)
        bad = predicates(n, kseq, dseq, allow, rev, real)
        bad += aux_api_checks(n, kseq, dseq, allow, rev, real)
        g = dict(n=n, kinds=''.join(kseq), dang=''.join(dseq), allow=allow,
                 rev=rev)
        if bad:
            viol.append((g, bad, real, spec_out))
        elif real != spec_out:
            drift.append((g, real, spec_out))
        if real[0] == 'cycle':
            ncyc += 1
        if 'w' in kseq:
            nweak += 1
    return viol, drift, ncyc, nweak


def _py_universe_chunk(args):
    """worker: predicate assertions alone on graphs beyond TLC's universe."""
    n, labels, start, stop, total_pairs = args
    viol = []
    cnt = 0
    nontriv = 0
    L = len(labels)
    for idx in range(start, stop):
        x = idx
        kseq = []
        for _ in range(total_pairs):
            kseq.append(labels[x % L])
            x //= L
        kseq = tuple(kseq)
        for rev in (False, True):
            real = real_outcome(n, kseq, (), False, rev)
            bad = predicates(n, kseq, (), False, rev, real)
            cnt += 1
            if bad:
                viol.append((dict(n=n, kinds=''.join(kseq), dang='',
                                  allow=False, rev=rev), bad, real, None))
        if sum(k != 'n' for k in kseq) >= 2:
            nontriv += 1
    return viol, cnt, nontriv


def _py_random_chunk(args):
    seed, count, nmin, nmax = args
    rnd = random.Random(seed)
    viol = []
    seen = set()
    for _ in range(count):
        n = rnd.randint(nmin, nmax)
        dens = rnd.choice([0.1, 0.2, 0.35])
        kseq = tuple(
            (rnd.choice('hhwwmcb') if rnd.random() < dens else 'n')
            for _ in range(n * n))
        rev = rnd.random() < 0.5
        seen.add(hash((kseq, rev)))
        real = real_outcome(n, kseq, (), False, rev)
        bad = predicates(n, kseq, (), False, rev, real)
        bad += aux_api_checks(n, kseq, (), False, rev, real)
        if bad:
            viol.append((dict(n=n, kinds=''.join(kseq), dang='', allow=False,
                              rev=rev), bad, real, None))
    return viol, count, len(seen)


_DET_PROG = r'''
import sys, hashlib, random
sys.path.insert(0, %(repo)r)
from edb.common import topological as T
from edb.common.ordered import OrderedSet
rnd = random.Random(%(seed)d)
h = hashlib.sha256()
for _ in range(%(count)d):
    n = rnd.randint(2, 7)
    keys = ['item%%d' %% i for i in range(n)]
    g = {}
    for i in range(n):
        per = {k: OrderedSet() for k in 'hwmc'}
        for j in range(n):
            if rnd.random() < 0.25:
                per[rnd.choice('hhwwmc')].add(keys[j])
        g[keys[i]] = T.DepGraphEntry(keys[i], deps=per['h'], weak_deps=per['w'],
                                     merge=per['m'] or None, loop_control=per['c'])
    try:
        out = ('ok',) + tuple(T.sort(g))
    except T.CycleError as e:
        out = ('cycle', e.item) + tuple(e.path)
    h.update(repr(out).encode())
print(h.hexdigest())
'''


def determinism_across_processes(seed, count):
    digs = []
    for hs in ('1', '2', '31337'):
        env = dict(os.environ, PYTHONHASHSEED=hs)
        p = subprocess.run(
            [sys.executable, '-c',
             _DET_PROG % dict(repo=lib.REPO, seed=seed, count=count)],
            env=env, stdout=subprocess.PIPE, stderr=subprocess.PIPE, text=True)
        if p.returncode != 0:
            raise lib.MachineryError('determinism subprocess failed: '
                                     + p.stderr[-1000:])
        digs.append(p.stdout.strip())
    return digs


def _graph_key(g):
    return f"n={g['n']} kinds={g['kinds']} dang={g['dang']} " \
           f"allow={g['allow']} rev={g['rev']}"


def _report(rep, viol):
    for g, bad, real, spec_out in viol:
        rep.violation(
            'graph:' + _graph_key(g),
            f'sort_ex on graph {_graph_key(g)}: ' + '; '.join(bad),
            dict(graph=g, failed=bad, real_outcome=real,
                 spec_outcome=spec_out,
                 how='kinds is row-major over ordered pairs (i,j), 1-based; '
                     'h=deps w=weak_deps m=merge c=loop_control; rev = '
                     'adjacency sets iterate descending'))


def replay(path, rep):
    d = json.load(open(path))['replay']
    g = d['graph']
    kseq = tuple(g['kinds'])
    dseq = tuple(g['dang'])
    real = real_outcome(g['n'], kseq, dseq, g['allow'], g['rev'])
    bad = predicates(g['n'], kseq, dseq, g['allow'], g['rev'], real)
    bad += aux_api_checks(g['n'], kseq, dseq, g['allow'], g['rev'], real)
    print('real outcome:', real, 'failed predicates:', bad)
    if bad:
        _report(rep, [(g, bad, real, d.get('spec_outcome'))])


def run(tier, seed, rep):
    cfgs = ['Toposort_a', 'Toposort_e', 'Toposort_d'] if tier == 'quick' else \
           ['Toposort_a', 'Toposort_e', 'Toposort_b', 'Toposort_c', 'Toposort_d']
    states = trans = 0
    traces = 0
    per_cfg = {}
    samples = []
    ndistinct_nontriv = 0
    pool = mp.Pool(lib.NCPU)
    try:
        for cfg in cfgs:
            r = lib.run_tlc('Toposort', cfg + '.cfg', timeout=3000,
                            deadlock=False)
            if r.violated:
                # the MODEL of the algorithm breaks a C20 predicate: decide on
                # the real code via the conformance below (the spec mirrors
                # the code), but surface it.
                raise lib.MachineryError(
                    f'TLC reports {r.violated} on {cfg}: the specification '
                    f'itself violates a C20 predicate - inspect before any '
                    f'verdict\n' + r.output[-3000:])
            m = re.search(r'the maximum (\d+)', r.output)
            if not m or int(m.group(1)) > 1:
                raise lib.MachineryError(
                    f'{cfg}: specification is not deterministic '
                    f'(max outdegree {m and m.group(1)})')
            rows = parse_out(r.output)
            if not rows:
                raise lib.MachineryError(f'{cfg}: no OUT lines')
            states += r.distinct
            trans += r.generated
            chunks = [rows[i::lib.NCPU * 4] for i in range(lib.NCPU * 4)]
            nv = nd = ncyc = nweak = 0
            for viol, drift, c, w in pool.imap_unordered(_check_rows, chunks):
                _report(rep, viol)
                nv += len(viol)
                ncyc += c
                nweak += w
                for g, real, spec_out in drift[:3]:
                    rep.spec_drift(
                        f'{_graph_key(g)} real={real} spec={spec_out}')
                nd += len(drift)
            traces += len(rows)
            ndistinct_nontriv += sum(
                1 for row in rows if sum(k != 'n' for k in row[1]) >= 2)
            per_cfg[cfg] = dict(tlc=r.summary(), graphs=len(rows),
                                cycles=ncyc, with_weak=nweak,
                                drift=nd, violations=nv)
            for row in rows[:: max(1, len(rows) // 3)][:3]:
                samples.append(dict(cfg=cfg, n=row[0], kinds=''.join(row[1]),
                                    dang=''.join(row[2]), allow=row[3],
                                    rev=row[4], spec_outcome=row[5]))

        # ---- beyond TLC's universe: predicate assertions alone
        py = {}
        if tier == 'thorough':
            labels = ('n', 'h', 'w', 'm', 'c', 'b')
            n = 3
            total = len(labels) ** (n * n)
            step = total // (lib.NCPU * 8) + 1
            jobs = [(n, labels, s, min(total, s + step), n * n)
                    for s in range(0, total, step)]
            cnt = nt = 0
            for viol, c, t in pool.imap_unordered(_py_universe_chunk, jobs):
                _report(rep, viol)
                cnt += c
                nt += t
            py['3nodes_all_kinds_exhaustive'] = dict(graphs=cnt, nontrivial=nt)
        nrand = 40_000 if tier == 'quick' else 1_200_000
        jobs = [(seed * 1000 + i, nrand // (lib.NCPU * 2), 4, 8)
                for i in range(lib.NCPU * 2)]
        cnt = dist = 0
        for viol, c, d in pool.imap_unordered(_py_random_chunk, jobs):
            _report(rep, viol)
            cnt += c
            dist += d
        py['random_4to8_nodes'] = dict(graphs=cnt, distinct=dist)
    finally:
        pool.terminate()

    digs = determinism_across_processes(seed, 3000 if tier == 'quick' else 30000)
    if len(set(digs)) != 1:
        rep.violation(
            'determinism:hashseed',
            'sort() output for identical ordered inputs differs between '
            'processes with different PYTHONHASHSEED',
            dict(seed=seed, digests=digs))

    cov = dict(
        states=states, transitions=trans,
        traces_validated_against_impl=traces,
        samples=samples,
        evaluations=traces + sum(v.get('graphs', 0) for v in py.values()),
        distinct_nontrivial=ndistinct_nontriv,
        rule='each input graph is one TLC initial state and one deterministic '
             'behaviour of Toposort.tla; every graph of the universe is also '
             'run through the real sort_ex/sort/normalize; non-trivial = at '
             'least two edges',
        exhaustive=True,
        per_config=per_cfg, beyond_tlc=py,
        determinism=dict(hashseeds=3, digests_equal=len(set(digs)) == 1),
        checker_cmd='tlc -config Toposort_{a,b,c,d}.cfg Toposort',
    )
    return dict(level='model_checking', coverage=cov, assumptions=[
        'graph keys are iterated in insertion order (dict) and adjacency sets '
        'in OrderedSet order, as the harness builds them',
        'loop_control edges take part in cycle detection like deps '
        '(mirrors the code; the property statement is silent on them)'])
