"""Validate MANIFEST.json and evidence/*.json against the given schemas (uses the tooling venv)."""
import glob, json, sys
import jsonschema
ms = json.load(open('/root/.vp/MANIFEST.schema.json'))
es = json.load(open('/root/.vp/EVIDENCE.schema.json'))
m = json.load(open('/verif/MANIFEST.json'))
jsonschema.validate(m, ms)
props = [json.loads(l)['id'] for l in open('/verif/properties.jsonl')]
claimed = [c['property_id'] for c in m['checks']]
na = [c['property_id'] for c in m.get('not_applicable', [])]
assert sorted(claimed + na) == sorted(props), (sorted(claimed + na), props)
for f in sorted(glob.glob('/verif/evidence/*.json')):
    jsonschema.validate(json.load(open(f)), es)
    print('ok', f)
print('manifest ok: claimed', claimed)
