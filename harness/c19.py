"""C19 - configuration commands compose and persist as specified.

Spec: spec/Config.tla - the reference semantics of the three-scope maps;
every history of operations (valid and invalid) up to MaxLen is one TLC
state which prints the expected maps and effective values.  The harness
replays EVERY such history through the real Operation.apply / config.lookup
over the real settings spec (std schema incl. the test-mode settings, which
cover scalar, enum, duration, memory, multi-valued and object-valued
settings), under several bindings of the abstract settings to real ones,
and compares maps and effective values; a rejected operation must raise and
leave all three maps untouched.  At visited states the two serialisation
round trips are checked: to_json/from_json, and to_edgeql -> parse ->
compile (real server compiler) -> config ops -> apply.  A value sweep over
duration / memory unit boundaries extends the round trips beyond TLC's
small value domains.
"""
from __future__ import annotations

import itertools
import json
import multiprocessing as mp
import random
import re

import lib

_S = {}


def S():
    if _S:
        return _S
    import boot
    import immutables
    from edb.server import config
    from edb.edgeql import qltypes
    from edb.ir import statypes
    from edb import errors
    comp = boot.compiler()
    spec = comp.state.config_spec
    _S.update(boot=boot, immutables=immutables, config=config, qltypes=qltypes,
              statypes=statypes, errors=errors, comp=comp, spec=spec)
    return _S


SCOPES = ('session', 'database', 'instance')

# bindings of the model's abstract scalar settings "A","B" to real settings:
# value 0 is the real default, 1..2 other valid values, INVALID a bad value
def bindings():
    st = S()['statypes']
    D, M = st.Duration, st.ConfigMemory
    return [
        dict(A=('durprop', [D('PT0S'), D('PT1.05S'), D('PT1H')], 5),
             B=('__internal_sess_testvalue', [0, 7, -3], 'seven')),
        dict(A=('memprop', [M('0B'), M('1MiB'), M('1023KiB')], 'lots'),
             B=('enumprop', ['One', 'Two', 'Three'], 5)),
        dict(A=('singleprop', ['', 'x', "it's"], 17),
             B=('boolprop', [True, False, True], 'yes')),
    ]


MULTI = 'multiprop'
OBJ = 'sysobj'


def obj_value(o):
    key, payload = o
    return {'_tname': 'cfg::TestInstanceConfig', 'name': key,
            'obj': {'_tname': 'cfg::Subclass1', 'name': 'p', 'sub1': payload}}


def scope_enum(sc):
    q = S()['qltypes'].ConfigScope
    return {'session': q.SESSION, 'database': q.DATABASE,
            'instance': q.INSTANCE}[sc]


def real_op(op, bind):
    """model op (kind, scope, setting, value) -> config.Operation"""
    cfg = S()['config']
    kind, sc, s, tv = op
    invalid = tv['t'] == 'invalid'
    v = tv.get('v')
    if s in ('A', 'B'):
        name, vals, bad = bind[s]
        if kind == 'SET':
            value = bad if invalid else vals[v]
        else:
            value = None
    elif s == 'M':
        name = MULTI
        if kind == 'SET':
            value = 5 if invalid else tuple(sorted(v))
        else:
            value = None
    else:
        name = OBJ
        value = obj_value(v) if kind in ('ADD', 'REM') else None
    return cfg.Operation(cfg.OpCode(kind), scope_enum(sc), name, value)


def expected_value(s, v, bind):
    """model value -> comparable projection of the real value"""
    if isinstance(v, dict):
        if v['t'] == 'absent':
            return 'ABSENT'
        v = v['v']
    if s in ('A', 'B'):
        return ('scalar', repr(bind[s][1][v]))
    if s == 'M':
        return ('multi', tuple(sorted(v)))
    return ('objs', tuple(sorted((o[0], o[1]) for o in v)))


def project_value(s, val):
    if s in ('A', 'B'):
        return ('scalar', repr(val))
    if s == 'M':
        return ('multi', tuple(sorted(val)))
    return ('objs', tuple(sorted((o.name, o.obj.sub1) for o in val)))


def real_name(s, bind):
    return bind[s][0] if s in ('A', 'B') else (MULTI if s == 'M' else OBJ)


def spec_copy():
    """a different-but-equal instance of the settings spec, as a second
    process gets it (the spec is shipped by pickle and re-derived after DDL)"""
    st = S()
    if 'spec2' not in st:
        import pickle
        st['spec2'] = pickle.loads(pickle.dumps(st['spec']))
    return st['spec2']


def replay_history(hist, exp_cfg, exp_eff, exp_last, bind, reload_at=None):
    """returns list of failure strings.  With reload_at=k the stored maps are
    persisted as JSON after k operations and loaded back by a "second
    process" (its own spec instance) before the history continues."""
    st = S()
    cfg, spec = st['config'], st['spec']
    maps = {sc: st['immutables'].Map() for sc in SCOPES}
    bad = []
    last = 'ok'
    for i, op in enumerate(hist):
        if reload_at is not None and i == reload_at:
            spec2 = spec_copy()
            maps = {sc: cfg.from_json(spec2, cfg.to_json(spec, m))
                    for sc, m in maps.items()}
        rop = real_op(op, bind)
        before = dict(maps)
        sc = op[1]
        try:
            new = rop.apply(spec, maps[sc])
            last = 'ok'
            maps[sc] = new
        except Exception as e:     # any exception = the operation is rejected
            last = 'rejected'
            for k in SCOPES:
                if maps[k] is not before[k] or maps[k] != before[k]:
                    bad.append(f'rejected {op} changed the {k} map')
    if last != exp_last:
        bad.append(f'last operation {hist[-1] if hist else None}: spec says '
                   f'{exp_last}, the code {last}')
    for sc in SCOPES:
        for s in ('A', 'B', 'M', 'O'):
            name = real_name(s, bind)
            e = expected_value(s, exp_cfg[sc][s], bind)
            got = 'ABSENT' if name not in maps[sc] else \
                project_value(s, maps[sc][name].value)
            if e != got:
                bad.append(f'{sc} map, setting {name}: expected {e}, got {got}')
    for s in ('A', 'B', 'M', 'O'):
        name = real_name(s, bind)
        got = cfg.lookup(name, maps['session'], maps['database'],
                         maps['instance'], spec=spec)
        e = expected_value(s, exp_eff[s], bind)
        if s == 'O' and exp_eff[s] == frozenset():
            e = ('objs', ())
        if s == 'M' and exp_eff[s] == frozenset():
            e = ('multi', ())
        if project_value(s, got) != e:
            bad.append(f'effective value of {name}: expected {e}, got '
                       f'{project_value(s, got)}')
    return bad, maps


def json_roundtrip(maps):
    st = S()
    cfg, spec = st['config'], st['spec']
    bad = []
    for sc, m in maps.items():
        js = cfg.to_json(spec, m)
        back = cfg.from_json(spec, js)
        if dict(back) != dict(m):
            bad.append(f'{sc} map: from_json(to_json(m)) != m: {dict(m)!r} vs '
                       f'{dict(back)!r}')
    return bad


def edgeql_roundtrip(maps):
    """to_edgeql -> parse/compile with the real compiler -> ops -> apply"""
    st = S()
    cfg, spec, boot = st['config'], st['spec'], st['boot']
    from edb.server.compiler import compiler as C
    from edb import edgeql
    bad = []
    n = 0
    for sc, m in maps.items():
        try:
            text = cfg.to_edgeql(spec, m, with_secrets=True)
        except Exception as e:
            bad.append(f'to_edgeql fails on the {sc} map {dict(m)!r}: '
                       f'{type(e).__name__}: {e}')
            continue
        if not text.strip():
            continue
        rebuilt = st['immutables'].Map()
        skipped = set()
        for stmt in [x for x in text.split(';\n') if x.strip()]:
            stmt = stmt.rstrip(';')
            n += 1
            try:
                ctx = boot.new_ctx()
                ug = C.compile(ctx=ctx, source=edgeql.Source.from_string(stmt))
            except Exception as e:
                bad.append(f'statement printed by to_edgeql is rejected: '
                           f'{stmt!r}: {type(e).__name__}: {e}')
                continue
            for u in ug:
                if not u.config_ops:
                    # object INSERTs are applied through the backend
                    skipped.add(OBJ)
                for op in u.config_ops or ():
                    rebuilt = op.apply(spec, rebuilt)
        # "loading it back yields the same effective configuration"
        for name, sv in m.items():
            if name in skipped:
                continue
            a = cfg.lookup(name, m, spec=spec)
            b = cfg.lookup(name, rebuilt, spec=spec)
            if a != b:
                bad.append(
                    f'{sc} map: effective {name}={a!r} comes back from its '
                    f'CONFIGURE statement as {b!r} (text: {text!r})')
            elif name in rebuilt and rebuilt[name].scope != sv.scope:
                bad.append(f'{sc} map: {name} comes back at scope '
                           f'{rebuilt[name].scope}')
    return bad, n


# ------------------------------------------------------------------ TLC side
def parse_out(output):
    rows = []
    for line in output.splitlines():
        if not line.startswith('"OUT '):
            continue
        txt = line[5:-1].replace('\\"', '"')
        hist, last, cfgm, eff = lib.fast_parse_tla(txt)
        rows.append((hist, last, cfgm, eff))
    return rows


def _norm_op(op):
    kind, sc, s, v = op
    return (kind, sc, s, v)


def _job(args):
    rows, nbind, do_json = args[:3]
    all_positions = len(args) > 3 and args[3]
    S()
    binds = bindings()
    out = []
    n = 0
    for (hist, last, cfgm, eff) in rows:
        hist = [_norm_op(o) for o in hist]
        for bi in range(nbind):
            bad, maps = replay_history(hist, cfgm, eff, last, binds[bi])
            if do_json:
                bad += json_roundtrip(maps)
            n += 1
            # persist-and-continue: reload before the last operation and
            # (when different) in the middle of the history
            for k in (range(len(hist)) if all_positions else
                      sorted({len(hist) - 1, len(hist) // 2} - {-1})):
                if not hist:
                    break
                b2, _ = replay_history(hist, cfgm, eff, last, binds[bi],
                                       reload_at=k)
                bad += [f'[stored maps reloaded from JSON by a second spec '
                        f'instance after {k} operations] {x}' for x in b2]
                n += 1
            if bad:
                out.append(dict(history=[list(map(_js, o)) for o in hist],
                                binding=bi, failed=bad[:4]))
    return n, out


def _js(x):
    if isinstance(x, dict):
        return {k: _js(v) for k, v in x.items()}
    if isinstance(x, frozenset):
        return sorted(_js(y) for y in x)
    if isinstance(x, tuple):
        return [_js(y) for y in x]
    return x


def _unjs_op(o):
    kind, sc, s, tv = o
    tv = dict(tv)
    if 'v' in tv:
        if s == 'M':
            tv['v'] = frozenset(tv['v'])
        if s == 'O':
            tv['v'] = tuple(tv['v'])
    return (kind, sc, s, tv)


def sweep_values():
    """serialisation round trips over unit boundaries (beyond TLC's domain)"""
    st = S()
    D, M = st['statypes'].Duration, st['statypes'].ConfigMemory
    cfg, spec = st['config'], st['spec']
    durs = ['PT0S', 'PT0.000001S', 'PT0.000999S', 'PT0.001S', 'PT0.05S',
            'PT0.5S', 'PT1.05S', 'PT1.000001S', 'PT59.999999S', 'PT1M',
            'PT1M0.02S', 'PT1H', 'PT1H1M1.1S', 'PT25H', 'PT1000H', '-PT1S',
            'PT0.123456S', 'PT12.3456S', 'PT0.10S']
    mems = ['0B', '1B', '1023B', '1KiB', '1023KiB', '1024KiB', '1MiB',
            '1025KiB', '1GiB', '5TiB', '1PiB', 1048576, '3MiB']
    cases = []
    for d in durs:
        try:
            cases.append(('durprop', D.from_iso8601(d) if isinstance(d, str) else d))
        except Exception:
            pass
    for m in mems:
        cases.append(('memprop', M(m)))
    # (strings the EdgeQL printer cannot express are C18's subject)
    for s in ['', 'a', "it's", 'a"b', 'back\\slash', 'new\nline', '$$']:
        cases.append(('singleprop', s))
    for ms in [(), ('a',), ('a', 'b'), ("it's", '$a$'), tuple(f'e{i}' for i in range(128))]:
        cases.append(('multiprop', ms))
    for i in [0, 1, -1, 2**31, -2**63, 2**63 - 1]:
        cases.append(('__internal_sess_testvalue', i))
    for e in ['One', 'Two', 'Three']:
        cases.append(('enumprop', e))
    for b in [True, False]:
        cases.append(('boolprop', b))
    bad = []
    n = 0
    for name, val in cases:
        for sc in ('session', 'database'):
            op = cfg.Operation(cfg.OpCode.CONFIG_SET, scope_enum(sc), name, val)
            try:
                m = op.apply(spec, st['immutables'].Map())
            except Exception as e:
                bad.append((name, repr(val), f'valid value rejected: {e}'))
                continue
            n += 1
            for b in json_roundtrip({sc: m}):
                bad.append((name, repr(val), b))
            b2, _ = edgeql_roundtrip({sc: m})
            for b in b2:
                bad.append((name, repr(val), b))
    # statement level: values outside the type / range never reach the maps
    from edb.server.compiler import compiler as C
    from edb import edgeql
    for stmt in [
        # (an invalid enum label is only caught by the backend's cast when the
        #  statement executes, which this sandbox cannot run)
        "configure session set durprop := 'PT1S'",
        "configure session set durprop := <duration>'not a duration'",
        "configure session set memprop := <cfg::memory>'12 parsecs'",
        "configure session set __internal_sess_testvalue := 'x'",
        "configure session set __internal_sess_testvalue := 1.5",
        "configure session set boolprop := 1",
        "configure session set multiprop := 5",
        "configure session set nosuchsetting := 5",
        "configure session set singleprop := {'a', 'b'}",
        "configure current database set __internal_testvalue := 1",
        "configure session set __internal_testvalue := 1",
    ]:
        n += 1
        ctx = st['boot'].new_ctx()
        before = ctx.state.current_tx().get_session_config()
        try:
            C.compile(ctx=ctx, source=edgeql.Source.from_string(stmt))
        except Exception:
            if ctx.state.current_tx().get_session_config() != before:
                bad.append(('statement', stmt, 'rejected but the session '
                            'configuration changed'))
        else:
            bad.append(('statement', stmt, 'invalid CONFIGURE accepted'))
    return n, bad


def report(rep, vs):
    for v in vs:
        rep.violation(
            'hist:' + json.dumps([v['binding'], v['history']]),
            f"history {v['history']} (binding {v['binding']}): "
            + '; '.join(v['failed'][:2]),
            dict(v, how='ops are (kind, scope, abstract setting, value); '
                        'bindings see harness/c19.py bindings()'))


def replay(path, rep):
    d = json.load(open(path))['replay']
    if 'history' not in d:
        print('value-sweep finding; re-run the check')
        return
    hist = [_unjs_op(o) for o in d['history']]
    # recompute expectation by running TLC is unnecessary: show real outcome
    bad, maps = replay_history(hist, None, None, None, bindings()[d['binding']]) \
        if False else ([], None)
    print('replay by re-running ./check C19 (the expectation comes from TLC)')


def run(tier, seed, rep):
    quick = tier == 'quick'
    S()                        # build / load caches once; workers are forked after
    cfgname = 'Config_2.cfg' if quick else 'Config_3.cfg'
    r = lib.run_tlc('Config', cfgname, timeout=3000, deadlock=False)
    if r.violated:
        raise lib.MachineryError(f'{cfgname}: {r.violated}\n{r.output[-2000:]}')
    rows = parse_out(r.output)
    if not rows:
        raise lib.MachineryError('no OUT lines from Config.tla')
    nb = len(bindings())
    total = 0
    nviol = 0
    chunks = [rows[i::lib.NCPU * 4] for i in range(lib.NCPU * 4)]
    with mp.Pool(lib.NCPU) as pool:
        for n, out in pool.imap_unordered(
                _job, [(ch, nb, True, not quick) for ch in chunks if ch]):
            total += n
            report(rep, out)
            nviol += len(out)

    # longer histories by TLC simulation (depth 10), same replay
    sim_rows = []
    rs = lib.run_tlc('Config', 'Config_sim.cfg', workers=4, timeout=1200,
                     simulate=f'num={300 if quick else 5000}', depth=10,
                     seed=seed, deadlock=False)
    sim_rows = parse_out(rs.output)
    # keep maximal histories only
    sim_rows = [x for x in sim_rows if len(x[0]) >= 6]
    with mp.Pool(lib.NCPU) as pool:
        chunks = [sim_rows[i::lib.NCPU] for i in range(lib.NCPU)]
        for n, out in pool.imap_unordered(
                _job, [(ch, nb, True, not quick) for ch in chunks if ch]):
            total += n
            report(rep, out)

    # EdgeQL round trip on a sample of reached states + the value sweep
    rnd = random.Random(seed)
    sample = rnd.sample(rows, min(len(rows), 40 if quick else 600))
    nstmts = 0
    binds = bindings()
    for (hist, last, cfgm, eff) in sample:
        bi = rnd.randrange(nb)
        bad, maps = replay_history([_norm_op(o) for o in hist], cfgm, eff,
                                   last, binds[bi])
        b2, n = edgeql_roundtrip(maps)
        nstmts += n
        if b2:
            report(rep, [dict(history=[list(map(_js, o)) for o in hist],
                              binding=bi, failed=b2)])
    nsweep, sweep_bad = sweep_values()
    for name, val, what in sweep_bad:
        rep.violation(f'value:{name}:{val}:{what[:60]}',
                      f'setting {name} value {val}: {what}',
                      dict(setting=name, value=val, what=what))
    samples = [dict(history=[list(map(_js, o)) for o in rows[len(rows) // 2][0]],
                    expected_last=rows[len(rows) // 2][1],
                    expected_effective={k: _js(v) for k, v in
                                        dict(rows[len(rows) // 2][3]).items()})]
    cov = dict(
        states=r.distinct, transitions=r.generated,
        traces_validated_against_impl=total,
        samples=samples, exhaustive=True,
        histories_exhaustive=len(rows), histories_simulated=len(sim_rows),
        bindings=nb, edgeql_statements_roundtripped=nstmts,
        value_sweep_cases=nsweep,
        evaluations=total, distinct_nontrivial=len(rows) - 1,
        rule='every history of <= MaxLen operations over the model alphabet '
             '(each is one TLC state) replayed into Operation.apply under '
             'each binding; non-trivial = non-empty history')
    return dict(level='model_checking', coverage=cov, assumptions=[
        'map-level semantics (Operation.apply / lookup); instance-level '
        'object INSERTs are applied through the backend and are only '
        'compiled, not applied, in the EdgeQL round trip',
        lib.SHIM_TRUST])
