"""C09 - compiler session state follows transaction and savepoint semantics.

Spec: spec/TxState.tla - the reference (PostgreSQL-style) semantics; every
history of statements up to MaxLen (transaction control, savepoints with
repeated names, DDL, module alias, session setting; each optionally failing
in the backend; statements the compiler rejects, including scripts rejected
part-way) is one TLC state that prints the triple <<schema, alias, setting>>
the next statement must see and whether the last statement was accepted.

Binding: the same history runs through the REAL Compiler.compile /
Compiler.compile_in_tx -> dbstate.CompilerConnectionState /Transaction with
a transcription of the server's connection protocol (dbview.pyx: the state
returned by a compile is adopted at once, txid := tx_id on START and := sp_id
on ROLLBACK TO SAVEPOINT, tx_error on any failure inside a block, only
ROLLBACK / ROLLBACK TO accepted while failed, abort after a failed COMMIT).
The compiler's copy is carried in two ways: re-using the live object (what
REUSE_LAST_STATE_MARKER does) and unpickling the bytes the server holds
(another worker).  After every statement the view of the NEXT statement -
the real sync_tx(txid) applied to a copy, then name resolution / alias /
setting read from it, and on a sample real probe compiles - is compared
with the spec.
"""
from __future__ import annotations

import json
import multiprocessing as mp
import pickle
import random
import uuid

import lib

_S = {}


def S():
    if _S:
        return _S
    import boot
    import immutables
    from edb.server.compiler import rpc, compiler as C
    from edb.server import defines, config
    from edb import edgeql, errors
    from edb.schema import schema as s_schema
    comp = boot.compiler()
    # base schema: modules default, m1, m2; default::V0, m1::P1, m2::P2
    ctx = boot.new_ctx()
    for q in ('create module default', 'create module m1', 'create module m2',
              'create type default::V0', 'create type m1::P1',
              'create type m2::P2'):
        C.compile(ctx=ctx, source=edgeql.Source.from_string(q))
    base_schema = ctx.state.current_tx().get_user_schema()
    _S.update(boot=boot, immutables=immutables, rpc=rpc, C=C, defines=defines,
              config=config, edgeql=edgeql, errors=errors, s_schema=s_schema,
              comp=comp, base_schema=base_schema,
              E=immutables.Map())
    return _S


def stmt_text(op, pos):
    k = op[0]
    if k == 'START':
        return 'start transaction'
    if k == 'COMMIT':
        return 'commit'
    if k == 'ROLLBACK':
        return 'rollback'
    if k == 'DECLARE':
        return f'declare savepoint {op[1]}'
    if k == 'RELEASE':
        return f'release savepoint {op[1]}'
    if k == 'ROLLBACKTO':
        return f'rollback to savepoint {op[1]}'
    if k == 'DDL':
        return f'create type default::V{pos}'
    if k == 'ALIAS':
        return f'set module {op[1]}'
    if k == 'CFG':
        return ('configure session set allow_user_specified_id := '
                + ('true' if op[1] == 1 else 'false'))
    if k == 'BAD':
        return 'select NoSuchType'
    if k == 'BADREL':
        return f'release savepoint {op[1]}; select 1;'
    if k == 'BADDECL':
        return f'declare savepoint {op[1]}; select NoSuchType;'
    raise ValueError(op)


def fails_flag(op):
    k = op[0]
    if k == 'COMMIT':
        return bool(op[1])
    if k in ('DDL', 'ALIAS', 'CFG'):
        return bool(op[2])
    return False


class Conn:
    """transcription of the server's per-connection transaction protocol"""

    def __init__(self, mode):
        st = S()
        self.mode = mode              # 'reuse' | 'pickle'
        self.schema = st['base_schema']
        self.aliases = st['immutables'].Map({None: 'default'})
        self.cfg = st['E']
        self.in_tx = False
        self.tx_error = False
        self.txid = None
        self.savepoints = []
        self.state_bytes = None       # what the server holds
        self.live = None              # what the last worker keeps (LAST_STATE)
        self.root = None

    def clone(self):
        c = Conn.__new__(Conn)
        c.__dict__.update(self.__dict__)
        c.savepoints = list(self.savepoints)
        if self.live is not None:
            # a live object cannot be shared between branches of the search
            c.live = self._unpickle()
        return c

    def _unpickle(self):
        st = pickle.loads(self.state_bytes)
        st.set_root_user_schema(self.root)
        return st

    def _request(self, text, in_tx):
        st = S()
        kw = {}
        if not in_tx:
            kw = dict(modaliases=self.aliases, session_config=self.cfg)
        return st['rpc'].CompilationRequest(
            source=st['edgeql'].Source.from_string(text),
            protocol_version=st['defines'].CURRENT_PROTOCOL,
            schema_version=uuid.UUID(int=1),
            compilation_config_serializer=st['comp'].state.compilation_config_serializer,
            **kw)

    def _reset_tx(self):
        self.in_tx = False
        self.tx_error = False
        self.txid = None
        self.savepoints = []
        self.state_bytes = None
        self.live = None
        self.root = None

    def run(self, text, fails):
        st = S()
        comp = st['comp']
        E = st['E']
        try:
            if self.in_tx:
                if self.mode == 'reuse' and self.live is not None:
                    state = self.live
                else:
                    state = self._unpickle()
                call_failed = True
                try:
                    units, new = comp.compile_in_tx(
                        state=state, txid=self.txid,
                        request=self._request(text, True),
                        expect_rollback=self.tx_error)
                    call_failed = False
                finally:
                    if call_failed:
                        # pool.compile_in_tx: forget the worker's copy
                        self.live = None
            else:
                units, new = comp.compile(
                    user_schema=self.schema,
                    global_schema=st['s_schema'].EMPTY_SCHEMA,
                    reflection_cache=E, database_config=E, system_config=E,
                    request=self._request(text, False))
        except st['errors'].EdgeDBError:
            if self.in_tx:
                self.tx_error = True
            return 'rejected'
        # dbview._compile: the returned state is adopted immediately
        if new is not None:
            root = new.root_user_schema
            self.state_bytes = pickle.dumps(new, -1)
            self.root = root
            self.live = new
        elif self.in_tx:
            raise lib.MachineryError('compile_in_tx returned no state')
        first = units[0]
        if self.tx_error and (
                not (first.tx_rollback or first.tx_savepoint_rollback)
                or len(units) > 1):
            return 'rejected'
        for u in units:
            if fails:
                if u.tx_commit and self.in_tx:
                    self._reset_tx()          # execute.pyx: abort_tx()
                elif self.in_tx:
                    self.tx_error = True
                return 'failed'
            if u.tx_id is not None and not self.in_tx:
                self.in_tx = True
                self.txid = u.tx_id
            if u.tx_savepoint_declare:
                self.savepoints.append((u.sp_name, u.sp_id))
            if u.tx_savepoint_rollback:
                self.tx_error = False
                while self.savepoints and self.savepoints[-1][0] != u.sp_name:
                    self.savepoints.pop()
                if not self.savepoints:
                    raise lib.MachineryError('savepoint not found in the '
                                             'server-side list')
                self.txid = self.savepoints[-1][1]
            if u.tx_commit:
                cur = self._unpickle().current_tx() if self.state_bytes else None
                if u.user_schema is not None:
                    self.schema = pickle.loads(u.user_schema)
                if cur is not None:
                    self.aliases = cur.get_modaliases()
                    self.cfg = cur.get_session_config()
                self._reset_tx()
            elif u.tx_rollback:
                self._reset_tx()
            elif not self.in_tx:
                if u.user_schema is not None:
                    self.schema = pickle.loads(u.user_schema)
                if u.modaliases is not None:
                    self.aliases = u.modaliases
                for cop in (u.config_ops or ()):
                    self.cfg = cop.apply(st['comp'].state.config_spec, self.cfg)
                self.state_bytes = None
                self.live = None
        return 'ok'

    # ---- what the next statement will be compiled against
    def view(self):
        if not self.in_tx:
            schema, aliases, cfg = self.schema, self.aliases, self.cfg
        else:
            state = self._unpickle()
            state.sync_tx(self.txid)      # the real method, on a copy
            tx = state.current_tx()
            schema, aliases, cfg = (tx.get_user_schema(), tx.get_modaliases(),
                                    tx.get_session_config())
        vis = set()
        for o in schema.get_objects(type=_objtype()):
            nm = o.get_name(schema)
            if nm.module == 'default' and nm.name.startswith('V') and nm.name != 'V0':
                vis.add(int(nm.name[1:]))
        alias = aliases.get(None)
        sv = cfg.get('allow_user_specified_id')
        c = 0 if sv is None else (1 if sv.value else 2)
        return vis, alias, c

    def probe(self, npos):
        """real compiles of read-only probes against a copy (sample)"""
        st = S()
        comp = st['comp']
        E = st['E']

        def ok(text):
            try:
                if self.in_tx:
                    comp.compile_in_tx(state=self._unpickle(), txid=self.txid,
                                       request=self._request(text, True))
                else:
                    comp.compile(user_schema=self.schema,
                                 global_schema=st['s_schema'].EMPTY_SCHEMA,
                                 reflection_cache=E, database_config=E,
                                 system_config=E,
                                 request=self._request(text, False))
                return True
            except st['errors'].EdgeDBError:
                return False
        vis = {p for p in range(1, npos + 1) if ok(f'select default::V{p}')}
        alias = 'm1' if ok('select P1') else 'm2' if ok('select P2') else \
            'default' if ok('select V0') else '?'
        c = 1 if ok("insert default::V0 { id := "
                    "<uuid>'aaaaaaaa-aaaa-aaaa-aaaa-aaaaaaaaaaaa' }") else 0
        return vis, alias, c


def _objtype():
    from edb.schema import objtypes
    return objtypes.ObjectType


# ------------------------------------------------------------------ replay
def parse_out(output):
    rows = {}
    for line in output.splitlines():
        if not line.startswith('"OUT '):
            continue
        txt = line[5:-1].replace('\\"', '"')
        hist, last, in_tx, err, cur, frames = lib.fast_parse_tla(txt)
        rows[hist] = (last, in_tx, err, cur, frames)
    return rows


def check_node(conn, hist, exp, do_probe):
    last_exp, in_tx, err, cur, frames = exp
    bad = []
    if conn.in_tx != in_tx:
        bad.append(f'in a transaction block: spec {in_tx}, server view {conn.in_tx}')
    if conn.tx_error != err:
        bad.append(f'failed-transaction state: spec {err}, server view {conn.tx_error}')
    if not err and conn.in_tx == in_tx:
        try:
            vis, alias, c = conn.view()
        except Exception as e:
            bad.append(f'the next statement cannot be compiled: sync_tx fails: '
                       f'{type(e).__name__}: {e}')
            return bad
        if vis != set(cur['schema']):
            bad.append(f'next statement would see the types created by '
                       f'statements {sorted(vis)}, the transaction exposes '
                       f'{sorted(cur["schema"])}')
        if alias != cur['alias']:
            bad.append(f'next statement would resolve unqualified names in '
                       f'{alias!r}, expected {cur["alias"]!r}')
        if c != cur['cfg']:
            bad.append(f'next statement would see session setting state {c}, '
                       f'expected {cur["cfg"]}')
        if do_probe and not bad:
            pv, pa, pc = conn.probe(len(hist))
            if pv != set(cur['schema']) or pa != cur['alias'] \
                    or pc != (1 if cur['cfg'] == 1 else 0):
                bad.append(f'probe compiles see types {sorted(pv)}, module '
                           f'{pa!r}, user-specified-id allowed={pc}; expected '
                           f'{sorted(cur["schema"])}, {cur["alias"]!r}, '
                           f'{1 if cur["cfg"] == 1 else 0}')
    return bad


def dfs_job(args):
    """explore the history trie below a prefix (the prefix itself is checked
    by the job that owns the shorter prefix; here it is only re-executed)"""
    prefix, rows, mode, maxlen, alphabet, probe_every, check_prefix = args
    S()
    out = []
    nodes = 0

    def rec(conn, hist):
        nonlocal nodes
        for op in alphabet:
            if len(hist) < len(prefix) and op != prefix[len(hist)]:
                continue
            h2 = hist + (op,)
            exp = rows.get(h2)
            if exp is None:
                continue
            c2 = conn.clone()
            try:
                outcome = c2.run(stmt_text(op, len(h2)), fails_flag(op))
            except lib.MachineryError:
                raise
            except Exception as e:
                out.append(dict(mode=mode, history=[list(o) for o in h2],
                                failed=[f'internal error instead of a verdict: '
                                        f'{type(e).__name__}: {e}']))
                continue
            if len(h2) <= len(prefix) and not check_prefix(len(h2)):
                if len(h2) < maxlen:
                    rec(c2, h2)
                continue
            nodes += 1
            bad = []
            if outcome != exp[0]:
                bad.append(f'statement {stmt_text(op, len(h2))!r}: spec says '
                           f'{exp[0]}, the system {outcome}')
            bad += check_node(c2, h2, exp, nodes % probe_every == 0)
            if bad:
                out.append(dict(mode=mode, history=[list(o) for o in h2],
                                statements=[stmt_text(o, i + 1) for i, o in enumerate(h2)],
                                failed=bad[:3]))
                continue          # do not explore below a broken node
            if len(h2) < maxlen:
                rec(c2, h2)
    rec(Conn(mode), ())
    return nodes, out


class _Own3:
    def __init__(self, first2, first1):
        self.first2, self.first1 = first2, first1

    def __call__(self, n):
        return n == 3 or (n == 2 and self.first2) or \
            (n == 1 and self.first2 and self.first1)


class _Own:
    """which prefix lengths this job has to check (picklable predicate)"""

    def __init__(self, first):
        self.first = first

    def __call__(self, n):
        return n == 2 or (n == 1 and self.first)


def run_history(hist, mode, rows=None):
    conn = Conn(mode)
    log = []
    for i, op in enumerate(hist):
        outcome = conn.run(stmt_text(op, i + 1), fails_flag(op))
        log.append((stmt_text(op, i + 1), outcome))
    return conn, log


def _sim_job(args):
    rows_list, mode = args
    S()
    out = []
    n = 0
    for hist, exp in rows_list:
        try:
            conn, log = run_history(hist, mode)
        except lib.MachineryError:
            raise
        except Exception as e:
            out.append(dict(mode=mode, history=[list(o) for o in hist],
                            failed=[f'internal error: {type(e).__name__}: {e}']))
            continue
        n += 1
        bad = []
        if log and log[-1][1] != exp[0]:
            bad.append(f'statement {log[-1][0]!r}: spec says {exp[0]}, the '
                       f'system {log[-1][1]}')
        bad += check_node(conn, hist, exp, n % 5 == 0)
        if bad:
            out.append(dict(mode=mode, history=[list(o) for o in hist],
                            statements=[s for s, _ in log], failed=bad[:3]))
    return n, out


def released_name_pattern(history):
    """TRUE iff the history contains, inside one transaction block, a
    ROLLBACK TO SAVEPOINT n that the server resolves (it keeps every declared
    savepoint in its list, RELEASE included) to a savepoint that has already
    been released - the situation of the recorded known finding."""
    ref, srv = [], []
    n_id = 0
    in_tx = False
    for op in history:
        k = op[0]
        if k == 'START' and not in_tx:
            in_tx, ref, srv = True, [], []
        elif k in ('COMMIT', 'ROLLBACK'):
            in_tx, ref, srv = False, [], []
        elif not in_tx:
            continue
        elif k == 'DECLARE':
            n_id += 1
            ref.append((op[1], n_id))
            srv.append((op[1], n_id))
        elif k == 'RELEASE':
            idx = [i for i, (n, _) in enumerate(ref) if n == op[1]]
            if idx:
                ref = ref[:idx[-1]]
        elif k == 'ROLLBACKTO':
            ridx = [i for i, (n, _) in enumerate(ref) if n == op[1]]
            sidx = [i for i, (n, _) in enumerate(srv) if n == op[1]]
            if ridx and sidx:
                if srv[sidx[-1]][1] != ref[ridx[-1]][1]:
                    return True
                ref = ref[:ridx[-1] + 1]
                srv = srv[:sidx[-1] + 1]
    return False


def report(rep, vs):
    for v in vs:
        hist = [tuple(o) for o in v['history']]
        if released_name_pattern(hist):
            rep.violation('tx:pattern:rollback-to-a-savepoint-name-whose-latest-'
                          'declaration-was-released',
                          f"history {v.get('statements', v['history'])}: "
                          + '; '.join(v['failed'][:2]), v)
            continue
        rep.violation(
            'tx:' + json.dumps([v['mode'], v['history']]),
            f"history {v.get('statements', v['history'])} (compiler state "
            f"carried by {v['mode']}): " + '; '.join(v['failed'][:2]), v)


def replay(path, rep):
    d = json.load(open(path))['replay']
    hist = tuple(tuple(o) for o in d['history'])
    conn, log = run_history(hist, d['mode'])
    print(log)
    print('view of the next statement:', conn.view() if not conn.tx_error else 'failed tx')


ALPHABET = None


def alphabet(reduced=False):
    ops = [('START',), ('ROLLBACK',), ('BAD',), ('COMMIT', False), ('COMMIT', True)]
    for n in (('a',) if reduced else ('a', 'b')):
        ops += [('DECLARE', n), ('RELEASE', n), ('ROLLBACKTO', n),
                ('BADREL', n), ('BADDECL', n)]
    ops += [('DDL', 0, False), ('DDL', 0, True)]
    if reduced:
        return ops + [('ALIAS', 'm1', False), ('CFG', 1, False)]
    for a in ('m1', 'm2'):
        ops += [('ALIAS', a, False), ('ALIAS', a, True)]
    for s in (1, 2):
        ops += [('CFG', s, False), ('CFG', s, True)]
    return ops


def run(tier, seed, rep):
    quick = tier == 'quick'
    S()
    maxlen = 3
    r = lib.run_tlc('TxState', f'TxState_{maxlen}.cfg', timeout=3000,
                    deadlock=False)
    if r.violated:
        raise lib.MachineryError(f'TxState: {r.violated}\n{r.output[-2000:]}')
    rows = parse_out(r.output)
    alpha = alphabet(reduced=quick)
    nodes = 0
    # the in-transaction core: START then savepoint / DDL sequences of length 5
    core_len = 5 if quick else 6
    rc = lib.run_tlc('TxState', 'TxState_core5.cfg' if quick else 'TxState_core.cfg',
                     timeout=3000, deadlock=False)
    if rc.violated:
        raise lib.MachineryError(f'TxState core: {rc.violated}')
    core_rows = parse_out(rc.output)
    core_alpha = [('START',), ('DECLARE', 'a'), ('DECLARE', 'b'),
                  ('ROLLBACKTO', 'a'), ('ROLLBACKTO', 'b'), ('RELEASE', 'a'),
                  ('DDL', 0, False)]

    def sub(rws, pfx):
        return {h: e for h, e in rws.items() if h[:len(pfx)] == pfx[:len(h)]}
    with mp.Pool(lib.NCPU) as pool:
        jobs = []
        k = 0
        for i, op in enumerate(alpha):
            for j, op2 in enumerate(alpha):
                # the job of the first continuation also checks the
                # 1- and 2-statement prefixes; modes alternate (quick) or both
                for mode in (('reuse', 'pickle') if not quick else
                             (('reuse', 'pickle')[k % 2],)):
                    jobs.append(((op, op2), sub(rows, (op, op2)), mode, maxlen,
                                 alpha, 11 if quick else 5, _Own(j == 0)))
                k += 1
        for a in core_alpha[1:]:
            for b in core_alpha[1:]:
                pfx = (('START',), a, b)
                k += 1
                jobs.append((pfx, sub(core_rows, pfx), ('reuse', 'pickle')[k % 2],
                             core_len, core_alpha, 13, _Own3(b == core_alpha[1],
                                                      a == core_alpha[1])))
        for n, out in pool.imap_unordered(dfs_job, jobs):
            nodes += n
            report(rep, out)
        # longer histories: TLC simulation
        rs = lib.run_tlc('TxState', 'TxState_sim.cfg', workers=8, timeout=1200,
                         simulate=f'num={40 if quick else 1500}', depth=12,
                         seed=seed, deadlock=False)
        sim = [(h, e) for h, e in parse_out(rs.output).items() if len(h) >= 5]
        rnd = random.Random(seed)
        rnd.shuffle(sim)
        sim = sim[:250 if quick else 20000]
        nsim = 0
        for mode in ('reuse', 'pickle'):
            chunks = [sim[i::lib.NCPU] for i in range(lib.NCPU)]
            for n, out in pool.imap_unordered(
                    _sim_job, [(ch, mode) for ch in chunks if ch]):
                nsim += n
                report(rep, out)
    mid = sorted(rows)[len(rows) // 2]
    samples = [dict(history=[list(o) for o in mid],
                    statements=[stmt_text(o, i + 1) for i, o in enumerate(mid)],
                    expected=dict(last=rows[mid][0], in_tx=rows[mid][1],
                                  failed_tx=rows[mid][2],
                                  visible=sorted(rows[mid][3]['schema']),
                                  alias=rows[mid][3]['alias'],
                                  setting=rows[mid][3]['cfg']))]
    cov = dict(
        states=r.distinct + rc.distinct, transitions=r.generated + rc.generated,
        traces_validated_against_impl=nodes + nsim,
        samples=samples, exhaustive=True, max_history_length=maxlen,
        histories_exhaustive=len(rows), core_histories_exhaustive=len(core_rows),
        nodes_executed=nodes,
        simulated_histories_executed=nsim,
        evaluations=nodes + nsim, distinct_nontrivial=len(rows) - 1,
        rule='every history of <= max_history_length statements over the '
             'model alphabet (one TLC state each), each executed twice (live '
             'object reused / state unpickled), plus simulated histories of '
             'length <= 12')
    return dict(level='model_checking', coverage=cov, assumptions=[
        'the server connection protocol (dbview.pyx / execute.pyx, Cython, not '
        'built here) is a transcription in harness/c09.py',
        'module aliases and session settings are tracked by the compiler state '
        'alone (requests inside a block carry no overriding values)',
        lib.SHIM_TRUST])
