"""C18 - quoted literals and identifiers cannot break out of their quotes.

SQL side: spec/Lexers.tla is PostgreSQL's lexical structure
(standard_conforming_strings=on) as recursive TLA+ operators.  The harness
calls every SQL quoting function of edb.pgsql (common.quote_literal,
quote_ident / quote_col / qname, quote_bytea_literal, the code generator's
string / bytea constants, dbops.encode_value and the dynamic-SQL prefix of
dbops composite commands) on EVERY string over an adversarial alphabet up
to a length bound (plus keyword lists and random long strings), records
<<kind, input, output>> and TLC validates each event: the output, between
sentinels, must lex as exactly one token of the right kind with the input
as its value.

EdgeQL side: the same universe goes through edgeql.quote.{quote_literal,
dollar_quote_literal, quote_ident, escape_string} and the EdgeQL code
generator's string / bytes constants and identifiers; the result is read
back by the EdgeQL tokenizer (harness port of tokenizer.rs, validated at
setup) and must be one token with the original value.
"""
from __future__ import annotations

import itertools
import json
import multiprocessing as mp
import os
import random
import re

import lib

ALPHABET = ["'", '"', '\\', '$', '`', '\n', '\r', 'a', 'E', 'x', '0', '_', ':',
            '@', ';', '-', '/', '*', ' ', '\u0085', '‮', 'é']

_S = {}


def S():
    if _S:
        return _S
    import boot
    from edb.edgeql import quote as qlquote
    from edb.edgeql import ast as qlast, codegen as qlcodegen
    from edb.pgsql import common as pgcommon, ast as pgast, codegen as pgcodegen
    from edb.pgsql import keywords as pgkw
    from edb.pgsql.dbops import base as dbops_base
    from edb.pgsql import dbops
    from edb.edgeql.parser.grammar import keywords as qlkw
    from edb import _edgeql_parser as ep
    _S.update(boot=boot, qlquote=qlquote, qlast=qlast, qlcodegen=qlcodegen,
              pgcommon=pgcommon, pgast=pgast, pgcodegen=pgcodegen, pgkw=pgkw,
              dbops_base=dbops_base, dbops=dbops, qlkw=qlkw, ep=ep)
    return _S


def universe(maxlen):
    for n in range(0, maxlen + 1):
        for t in itertools.product(ALPHABET, repeat=n):
            yield ''.join(t)


def extra_strings(seed, count):
    st = S()
    rnd = random.Random(seed)
    out = ['$', '$$', '$a$', 'a$', '$$$', 'x$a$', '$0$', '$_$', 'abc$', "'$'",
           '\\', '\\\\', "\\'", "''", '""', '``', '`', 'a`b', '--', '/*', '*/',
           '/* x', '-- x\n', 'E', "E'", 'e\'x', '\\x', '\\x41', '\x00', 'a\x00b',
           '‏', '⁦x', '﻿', ' ', '\x7f', '\x1b', '\t', '\b',
           '\f', '\v', 'ß', 'ǅ', 'İ', '١', '１', '00', '01', '007', '1a', '9',
           '0', '10', '_', '__type__', '__std__', '__new__', 'a b', 'a::b',
           '@a', 'a@b', ':a', 'a:', '😀', 'a퟿b']
    for kws in (st['pgkw'].by_type.values() if hasattr(st['pgkw'], 'by_type') else []):
        for k in list(kws)[:]:
            out += [k, k.upper(), k.capitalize()]
    for kws in st['qlkw'].by_type.values():
        for k in list(kws):
            out += [k, k.upper(), k.capitalize()]
    pool = ALPHABET + ['b', 'Z', '9', '.', '(', ')', '{', '}', '%', '\t', 'é', '中']
    for _ in range(count):
        out.append(''.join(rnd.choice(pool) for _ in range(rnd.randint(5, 40))))
    return out


def cps(s):
    return [ord(c) for c in s]


# ------------------------------------------------------------------ SQL side
def sql_events(strings, byte_strings):
    st = S()
    pc, pgast, pgcodegen = st['pgcommon'], st['pgast'], st['pgcodegen']
    ev = []
    direct = []

    def wrap(out):
        return cps('SENTA ' + out + ' ; SENTB')
    for s in strings:
        if '\x00' in s:
            # NUL cannot be expressed in any SQL form: must be refused or be
            # somebody else's problem - skip (PostgreSQL rejects it itself)
            continue
        ev.append(dict(k='pg_literal', f='quote_literal', **{'in': cps(s)},
                       out=wrap(pc.quote_literal(s))))
        ev.append(dict(k='pg_literal', f='codegen.StringConstant', **{'in': cps(s)},
                       out=wrap(pgcodegen.generate_source(pgast.StringConstant(val=s)))))
        ev.append(dict(k='pg_literal', f='dbops.encode_value', **{'in': cps(s)},
                       out=wrap(st['dbops_base'].encode_value(s))))
        if s:
            for col in (False, True):
                q = pc.quote_ident(s, column=col)
                ev.append(dict(k='pg_ident', f=f'quote_ident(column={col})',
                               **{'in': cps(s)}, out=wrap(q)))
                # self-consistency with the keyword tables / case folding
                if q == s:
                    low = s.lower()
                    kw = st['pgkw'].by_type
                    if (low != s or not (s[0].isalpha() or s[0] == '_')
                            or low in kw[st['pgkw'].RESERVED_KEYWORD]
                            or low in kw[st['pgkw'].TYPE_FUNC_NAME_KEYWORD]
                            or (col and low in kw[st['pgkw'].COL_NAME_KEYWORD])):
                        direct.append(('quote_ident', s,
                                       'emitted bare although it is a reserved '
                                       'word, not lower case or starts with a '
                                       'digit'))
            ev.append(dict(k='pg_ident', f='quote_ident(force)', **{'in': cps(s)},
                           out=wrap(pc.quote_ident(s, force=True))))
    for b in byte_strings:
        ev.append(dict(k='pg_bytea', f='quote_bytea_literal', **{'in': list(b)},
                       out=wrap(pc.quote_bytea_literal(b))))
        ev.append(dict(k='pg_bytea', f='codegen.ByteaConstant', **{'in': list(b)},
                       out=wrap(pgcodegen.generate_source(pgast.ByteaConstant(val=b)))))
    return ev, direct


def exec_events(names):
    """dynamic SQL built by dbops composite commands"""
    st = S()
    dbops = st['dbops']
    ev = []
    for schema, table in names:
        try:
            text = ''
            for conditional in (False, True):
                at = dbops.AlterTable((schema, table))
                cc = dbops.CheckConstraint(
                    (schema, table), 'chk',
                    st['dbops_base'].Query("SELECT 'x > 0'", type='text',
                                           trampoline_fixup=False))
                op = dbops.AlterTableAddConstraint(cc)
                if conditional:
                    at.add_operation((op, ['true'], []))
                else:
                    at.add_operation(op)
                block = dbops.PLTopBlock()
                at.generate(block)
                text += block.to_string() + '\n'
        except Exception as e:
            raise lib.MachineryError(f'cannot build dbops command: {e!r}')
        for line in text.split('\n'):
            ln = line.strip()
            if ln.startswith('EXECUTE '):
                ev.append(dict(k='pg_exec', f='dbops.AlterTable+dynamic action',
                               **{'in': [cps(schema), cps(table)]}, out=cps(ln)))
    return ev


def tlc_validate(events, nchunks=16):
    d = lib.scratch('lex-')
    tf = os.path.join(d, 'events.json')
    slim = [dict(k=e['k'], **{'in': e['in']}, out=e['out']) for e in events]
    json.dump(slim, open(tf, 'w'))
    cf = os.path.join(d, 'L.cfg')
    open(cf, 'w').write(f'SPECIFICATION Spec\nCONSTANT NChunks = {nchunks}\n'
                        'CHECK_DEADLOCK FALSE\n')
    r = lib.run_tlc('Lexers', cf, workers=nchunks, timeout=3000,
                    env={'TRACE_FILE': tf}, deadlock=False, heap='16g')
    bad = []
    for m in re.finditer(r'<<"BAD", (\d+), "(.*?)">>', r.output):
        bad.append((int(m.group(1)), m.group(2)))
    done = len(re.findall(r'<<"CHUNKDONE", \d+>>', r.output))
    if done != nchunks:
        raise lib.MachineryError(
            f'Lexers: only {done}/{nchunks} chunks evaluated\n{r.output[-2000:]}')
    return bad, r


# ------------------------------------------------------------------ EdgeQL side
def ql_tokens(text):
    ep = S()['ep']
    res = ep.tokenize(text)
    if res.errors:
        return None, res.errors[0][0]
    return [(t.kind, t.value if t.value is not None else t.text)
            for t in res.out[:-1]], None


def _one(text, kind, value):
    toks, err = ql_tokens('SENTA ' + text + ' ; SENTB')
    if toks is None:
        return f'the EdgeQL lexer rejects it: {err}'
    if len(toks) != 4 or toks[0] != ('IDENT', 'SENTA') or toks[3] != ('IDENT', 'SENTB') \
            or toks[2][0] != ';':
        return f'not a single token between the sentinels: {toks[:6]}'
    k, v = toks[1]
    if k != kind:
        return f'read back as {k}, expected {kind}'
    if v != value:
        return f'read back with value {v!r}'
    return None


def _parse_name(text, want, root):
    from edb.edgeql import parser as qlparser
    from edb.edgeql import ast as qlast
    from edb import errors
    try:
        tree = qlparser.parse_fragment(text)
    except errors.EdgeQLSyntaxError as e:
        return f'`{text}` is rejected by the parser: {e}'
    try:
        path = tree.result
        step = path.steps[0] if root else path.steps[1]
        got = step.name
        extra = len(path.steps) != (1 if root else 2)
    except Exception:
        return f'`{text}` does not parse to a plain name: {tree!r}'
    if extra or got != want or (root and getattr(step, 'module', None)):
        return f'`{text}` parses to the name {got!r}'
    return None


def _parse_param(text, want):
    from edb.edgeql import parser as qlparser
    from edb import errors
    try:
        tree = qlparser.parse_fragment(text)
    except errors.EdgeQLSyntaxError as e:
        return f'`{text}` is rejected by the parser: {e}'
    try:
        got = tree.result.expr.name
    except Exception:
        return f'`{text}` does not parse to a cast of a parameter'
    if got != want:
        return f'`{text}` parses to the parameter {got!r}'
    return None


def ql_checks(strings, byte_strings):
    st = S()
    q, qlast, gen = st['qlquote'], st['qlast'], st['qlcodegen'].generate_source
    bad = []
    n = 0
    RAW_FORBIDDEN = set('\x00\u202a\u202b\u202c\u202d\u202e\u2066\u2067\u2068\u2069')
    for s in strings:
        forms = []
        # "every string that a quoted form can express": NUL cannot be written
        # in an EdgeQL string at all; a dollar-quoted string has no escapes, so
        # it cannot hold the characters the lexer refuses to read raw
        if '\x00' not in s:
            forms += [('quote_literal', q.quote_literal(s), 'SCONST'),
                      ('codegen.Constant(string)',
                       gen(qlast.Constant.string(s)), 'SCONST')]
        if not (RAW_FORBIDDEN & set(s)):
            forms.append(('dollar_quote_literal', q.dollar_quote_literal(s), 'SCONST'))
        for name, out, kind in forms:
            n += 1
            why = _one(out, kind, s)
            if why:
                bad.append((name, s, out, why))
        # an identifier is expressible iff its canonical backtick form
        # (backticks doubled) is read by the lexer as that identifier
        canon = '`' + s.replace('`', '``') + '`'
        if s and _one(canon, 'IDENT', s) is None:
            # read back through the real grammar: as the name of a path root
            # (object / alias reference) and as a pointer name after a dot
            for name, out in (
                    ('quote_ident', q.quote_ident(s)),
                    ('quote_ident(force)', q.quote_ident(s, force=True))):
                n += 1
                why = _parse_name(f'select {out}', s, root=True)
                if why:
                    bad.append((name, s, out, why))
            # pointer names are printed with allow_num (codegen.visit_Ptr)
            out = q.quote_ident(s, allow_num=True)
            n += 1
            why = _parse_name(f'select SENTA.{out}', s, root=False)
            if why:
                bad.append(('quote_ident(allow_num) as pointer name', s, out, why))
    for b in byte_strings:
        n += 1
        out = gen(qlast.BytesConstant(value=b))
        why = _one(out, 'BCONST', b)
        if why:
            bad.append(('codegen.BytesConstant', repr(b), out, why))
    return n, bad


def _ql_job(args):
    strings, byte_strings = args
    S()
    return ql_checks(strings, byte_strings)


def _sql_job(strings):
    S()
    return sql_events(strings, [])


NAMES = [('edgedbpub', 'plain'), ('edgedbpub', 'MixedCase'), ('edgedbpub', 'select'),
         ('edgedbpub', '1x'), ('edgedbpub', 'with space'), ('edgedbpub', 'semi;colon'),
         ('edgedbpub', 'back\\slash'), ('edgedbpub', 'dollar$$sign'),
         ('edgedbpub', 'dq"inside'), ('Weird Schema', '6f1c9a52-aaaa'),
         ('edgedbpub', "it's"), ('edgedbpub', "''"), ("o'schema", 'plain'),
         ('edgedbpub', 'x" \'; DROP TABLE y; --'), ('edgedbpub', "a'||'b"),
         ('edgedbpub', '$$'), ('edgedbpub', 'E\'x'), ('edgedbpub', '/*'),
         ('edgedbpub', '--')]


def run(tier, seed, rep):
    quick = tier == 'quick'
    S()
    L = 3 if quick else 4
    strings = list(universe(L)) + extra_strings(seed, 300 if quick else 5000)
    bset = [bytes(t) for n in range(0, 4)
            for t in itertools.product([0x00, 0x27, 0x5c, 0xff, 0x41, 0x0a], repeat=n)]
    rnd = random.Random(seed)
    bset += [bytes(rnd.randrange(256) for _ in range(rnd.randint(4, 30)))
             for _ in range(200)]
    bset += [bytes([i]) for i in range(256)]

    # EdgeQL side (executable lexer)
    nql = 0
    chunks = [strings[i::lib.NCPU * 2] for i in range(lib.NCPU * 2)]
    qlbad = []
    with mp.Pool(lib.NCPU) as pool:
        for n, bad in pool.imap_unordered(
                _ql_job, [(ch, bset if i == 0 else []) for i, ch in enumerate(chunks)]):
            nql += n
            qlbad += bad
        # SQL side: record events
        events, direct = [], []
        for ev, dr in pool.imap_unordered(_sql_job, chunks):
            events += ev
            direct += dr
    ev2, _ = sql_events([], bset)
    events += ev2
    events += exec_events(NAMES)
    sqlbad, r = tlc_validate(events)

    seen_forms = {}
    for name, s, out, why in qlbad:
        # one finding per (function, class of input): key on function + the
        # shortest offending input seen
        key2 = (name, _klass(s))
        cur = seen_forms.get(key2)
        if cur is None or (len(s), s) < (len(cur[0]), cur[0]):
            seen_forms[key2] = (s, out, why)
    for (name, _k), (s, out, why) in sorted(seen_forms.items()):
        cnt = sum(1 for x in qlbad if x[0] == name and _klass(x[1]) == _k)
        rep.violation(
            f'edgeql:{name}:{_klass(s)}',
            f'EdgeQL {name}({s!r}) -> {out!r}: {why} ({cnt} inputs of the '
            f'universe fail for this function)',
            dict(function=name, input=s, output=out, why=why, failing_inputs=cnt,
                 more=[(x[1], x[2]) for x in qlbad if x[0] == name][:10]))
    by = {}
    for i, why in sqlbad:
        e = events[i - 1]
        cur = by.get(e['f'])
        sin = e['in']
        if cur is None or len(sin) < len(cur[0]['in']):
            by[e['f']] = (e, why)
    for f, (e, why) in sorted(by.items()):
        cnt = sum(1 for i, _ in sqlbad if events[i - 1]['f'] == f)
        rep.violation(
            f'sql:{f}:{why}',
            f'SQL {f}: input {_show(e["in"])} -> {_show(e["out"])}: {why} '
            f'({cnt} events fail for this function)',
            dict(function=f, input=e['in'], output=e['out'], why=why,
                 failing_events=cnt))
    for f, s, why in direct[:20]:
        rep.violation(f'sql:{f}:{why}:{s}', f'SQL {f}({s!r}): {why}',
                      dict(function=f, input=s, why=why))
    samples = [dict(kind=e['k'], function=e['f'], input=_show(e['in']),
                    output=_show(e['out'])) for e in events[100:103]]
    cov = dict(
        states=r.distinct, transitions=r.generated,
        traces_validated_against_impl=len(events),
        samples=samples, exhaustive=True,
        alphabet=[repr(c) for c in ALPHABET], max_length=L,
        strings=len(strings), byte_strings=len(bset),
        sql_events_validated_by_tlc=len(events), edgeql_forms_read_back=nql,
        evaluations=len(events) + nql, distinct_nontrivial=len(strings) - 1,
        rule='every string over the adversarial alphabet up to max_length, '
             'keyword lists in three cases, dollar-tag collisions and random '
             'long strings; one event per (quoting function, string)')
    return dict(level='model_checking', coverage=cov, assumptions=[
        'PostgreSQL lexical rules transcribed from the manual '
        '(standard_conforming_strings=on); keyword-driven identifier quoting '
        'is checked against the repository\'s own keyword table only',
        'EdgeQL lexer = harness port of tokenizer.rs / validation.rs',
        lib.SHIM_TRUST])


def _klass(s):
    try:
        if s.lower() in S()['ep'].partial_reserved_keywords:
            return 'partial-reserved-keyword'
        if s.lower() in S()['qlkw'].reserved_keywords:
            return 'reserved-keyword'
    except Exception:
        pass
    if s.isdigit():
        return 'digits'
    if any(0x202a <= ord(c) <= 0x202e or 0x2066 <= ord(c) <= 0x2069
           or ord(c) in (0x200e, 0x200f, 0x61c) for c in s):
        return 'bidi-control'
    if any(ord(c) < 32 and c not in '\n\r\t' for c in s) or '\x7f' in s:
        return 'control-char'
    if '$' in s:
        return 'dollar'
    if '\\' in s:
        return 'backslash'
    if any(ord(c) > 127 for c in s):
        return 'non-ascii'
    return 'other'


def _show(x):
    if x and isinstance(x[0], list):
        return [_show(y) for y in x]
    try:
        return ''.join(chr(c) for c in x)
    except Exception:
        return str(x)


def replay(path, rep):
    d = json.load(open(path))
    print(json.dumps(d['replay'], indent=1)[:2000])
    print('re-run ./check C18 to re-evaluate (inputs are regenerated)')
