"""Shared machinery: evidence files, VIOLATION / KNOWN-FINDING reporting,
TLC runner and output parsers, scratch directories.

Exit codes (DESIGN section 1): 0 = property held on everything explored,
1 = VIOLATION printed, 2 = machinery failure (never a verdict).
"""
from __future__ import annotations

import hashlib
import json
import os
import re
import shutil
import subprocess
import sys
import tempfile
import time

VERIF = os.path.dirname(os.path.dirname(os.path.abspath(__file__)))
REPO = os.environ.get('VERIF_REPO', '/repo')
SPEC = os.path.join(VERIF, 'spec')
# VERIF_OUT redirects evidence and replay files (used when running the checks
# against a seeded mutant in a scratch worktree, so the real evidence stays)
_OUT = os.environ.get('VERIF_OUT', VERIF)
EVID = os.path.join(_OUT, 'evidence')
REPLAYS = os.path.join(_OUT, 'replays')
TLA_JAR = '/opt/veriftools/tla/tla2tools.jar'
TLA_CP = f'{TLA_JAR}:/opt/veriftools/tla/CommunityModules-deps.jar'
NCPU = os.cpu_count() or 4


def install_fastarena():
    """Load the caching arena allocator (shim/native/fastarena.c) if it can be
    built; a pure performance aid, silently skipped when unavailable."""
    import ctypes
    src = os.path.join(VERIF, 'shim', 'native', 'fastarena.c')
    cache = os.path.join(VERIF, '.cache')
    so = os.path.join(cache, 'fastarena.so')
    try:
        if (not os.path.exists(so)
                or os.path.getmtime(so) < os.path.getmtime(src)):
            os.makedirs(cache, exist_ok=True)
            tmp = f'{so}.{os.getpid()}.tmp'
            for cc in ('clang', 'gcc', 'cc'):
                if shutil.which(cc):
                    p = subprocess.run(
                        [cc, '-O2', '-shared', '-fPIC', '-o', tmp, src, '-ldl'],
                        stdout=subprocess.PIPE, stderr=subprocess.STDOUT)
                    if p.returncode == 0:
                        os.replace(tmp, so)
                        break
        if os.path.exists(so):
            return ctypes.CDLL(so).fastarena_install() == 0
    except Exception:
        pass
    return False


class MachineryError(Exception):
    """The check itself is broken (exit 2) - never a verdict."""


# --------------------------------------------------------------- scratch
_SCRATCH = []


def scratch(prefix='verif-') -> str:
    base = os.environ.get('VERIF_SCRATCH') or tempfile.gettempdir()
    d = tempfile.mkdtemp(prefix=prefix, dir=base)
    _SCRATCH.append(d)
    return d


def cleanup():
    while _SCRATCH:
        shutil.rmtree(_SCRATCH.pop(), ignore_errors=True)


# --------------------------------------------------------------- findings
def load_known_findings():
    p = os.path.join(VERIF, 'known_findings.json')
    if not os.path.exists(p):
        return []
    with open(p) as f:
        return json.load(f).get('findings', [])


class Reporter:
    """Collects violations for one property; prints the interface lines."""

    MAX_REPORTED = 20   # further distinct violations are counted, not printed

    def __init__(self, pid: str):
        self.pid = pid
        self.suppressed = 0
        self.violations = []       # (key, what, replay_path)
        self.known_hits = []       # (key, what)
        self.drift = []
        self._known = {f['key']: f for f in load_known_findings()
                       if f.get('property') == pid
                       and f.get('status') == 'known'}
        self._seen = set()

    def violation(self, key: str, what: str, replay: dict):
        """key: stable identity of the specific failing input/history."""
        if key in self._seen:
            return
        self._seen.add(key)
        if key in self._known:
            self.known_hits.append((key, self._known[key].get('what', what)))
            print(f'KNOWN-FINDING: property={self.pid} '
                  f'{self._known[key].get("what", what)}', flush=True)
            return
        if len(self.violations) >= self.MAX_REPORTED:
            self.suppressed += 1
            self.violations.append((key, what, None))
            return
        d = os.path.join(REPLAYS, self.pid)
        os.makedirs(d, exist_ok=True)
        h = hashlib.sha256(key.encode()).hexdigest()[:16]
        path = os.path.join(d, f'{h}.json')
        with open(path, 'w') as f:
            json.dump({'property': self.pid, 'key': key, 'what': what,
                       'replay': replay}, f, indent=1, default=repr)
        self.violations.append((key, what, path))
        print(f'VIOLATION property={self.pid} replay={path}', flush=True)
        print(f'  what: {what}', flush=True)

    def spec_drift(self, what: str):
        self.drift.append(what)
        print(f'SPEC-DRIFT property={self.pid} {what}', flush=True)

    @property
    def exit_code(self):
        return 1 if self.violations else 0


# --------------------------------------------------------------- evidence
def write_evidence(pid, tier, seed, level, coverage, wall_s, violations=0,
                   assumptions=()):
    os.makedirs(EVID, exist_ok=True)
    ev = {
        'property_id': pid,
        'tier': tier,
        'seed': int(seed),
        'level': level,
        'coverage': coverage,
        'assumptions': list(assumptions),
        'wall_s': round(float(wall_s), 2),
        'violations': int(violations),
    }
    p = os.path.join(EVID, f'{pid}.json')
    tmp = p + '.tmp'
    with open(tmp, 'w') as f:
        json.dump(ev, f, indent=1, default=repr)
        f.write('\n')
    os.replace(tmp, p)
    return p


SHIM_TRUST = (
    'harness-side native shim (/verif/shim): pure-Python LALR(1)+fork driver '
    'and tokenizer port standing in for the absent Rust parser, validated by '
    'the upstream syntax corpus cross-check at setup')


# --------------------------------------------------------------- TLC
class TLCResult:
    def __init__(self):
        self.ok = False
        self.generated = 0
        self.distinct = 0
        self.depth = 0
        self.violated = None      # name of invariant/property violated
        self.error_trace = []     # list of state texts
        self.output = ''
        self.wall = 0.0
        self.coverage = {}        # action -> (distinct, total)
        self.timed_out = False
        self.cached = False       # taken from .cache/tlc (identical earlier run)

    def summary(self):
        return {'from_cache': getattr(self, 'cached', False),
                'states_generated': self.generated,
                'distinct_states': self.distinct, 'depth': self.depth,
                'wall_s': round(self.wall, 1)}


_RE_STATES = re.compile(
    r'(\d[\d,]*) states generated, (\d[\d,]*) distinct states found')
_RE_DEPTH = re.compile(r'depth of the complete state graph search is (\d+)')
_RE_INV = re.compile(r'Invariant (\S+) is violated')
_RE_PROP = re.compile(r'(?:Action|Temporal) propert(?:y|ies) (\S+)? ?'
                      r'(?:is|were) violated')
_RE_COV = re.compile(r'^<(\w+) line .*?>: (\d+):(\d+)', re.M)


def run_tlc(module, cfg=None, *, cwd=SPEC, workers=None, timeout=1800,
            simulate=None, depth=None, seed=None, extra=(), env=None,
            java_opts=(), coverage=False, deadlock=True, quiet=False,
            heap='8g'):
    """Run TLC on spec/<module>.tla with <cfg>.  Returns TLCResult.

    Raises MachineryError on parse/semantic errors or crashes (anything that
    is not success / invariant violation / deadlock / timeout)."""
    # The universes printed by the enumerator specs depend on the spec, the
    # cfg and the seed only - not on /repo.  In the quick tier an identical
    # TLC run (same spec directory content, cfg, arguments, jar) is taken
    # from .cache/tlc; thorough runs and trace validation always run TLC.
    ck = None
    if (env is None and cwd == SPEC and not coverage
            and os.environ.get('VERIF_TIER', 'quick') != 'thorough'
            and not os.environ.get('VERIF_NO_TLC_CACHE')):
        ck = _tlc_cache_key(module, cfg, simulate, depth, seed, extra, deadlock)
        hit = _tlc_cache_get(ck)
        if hit is not None:
            return hit
    meta = scratch('tlc-')
    cmd = ['java', '-XX:+UseParallelGC', f'-Xmx{heap}', *java_opts,
           '-cp', TLA_CP, 'tlc2.TLC',
           '-metadir', meta, '-noGenerateSpecTE',
           '-workers', str(workers or NCPU)]
    if cfg:
        cmd += ['-config', cfg]
    if simulate:
        cmd += ['-simulate', simulate]
    if depth:
        cmd += ['-depth', str(depth)]
    if seed is not None:
        cmd += ['-seed', str(seed)]
    if coverage:
        cmd += ['-coverage', '1']
    if not deadlock:
        cmd += ['-deadlock']
    cmd += list(extra)
    cmd += [module]
    e = dict(os.environ)
    if env:
        e.update(env)
    t = time.time()
    res = TLCResult()
    try:
        p = subprocess.run(cmd, cwd=cwd, env=e, stdout=subprocess.PIPE,
                           stderr=subprocess.STDOUT, timeout=timeout,
                           text=True, errors='replace')
        out = p.stdout
        rc = p.returncode
    except subprocess.TimeoutExpired as ex:
        out = (ex.stdout or b'')
        if isinstance(out, bytes):
            out = out.decode(errors='replace')
        rc = -9
        res.timed_out = True
        subprocess.run(['pkill', '-f', meta], check=False)
    res.wall = time.time() - t
    res.output = out
    shutil.rmtree(meta, ignore_errors=True)
    ms = _RE_STATES.findall(out)
    if ms:
        res.generated = int(ms[-1][0].replace(',', ''))
        res.distinct = int(ms[-1][1].replace(',', ''))
    m = _RE_DEPTH.search(out)
    if m:
        res.depth = int(m.group(1))
    for m in _RE_COV.finditer(out):
        res.coverage[m.group(1)] = (int(m.group(2)), int(m.group(3)))
    m = _RE_INV.search(out)
    if m:
        res.violated = m.group(1)
    elif 'is violated' in out or 'was violated' in out:
        m = re.search(r'propert\w+ (\S+) (?:is|was) violated', out)
        res.violated = m.group(1) if m else 'property'
    elif 'Deadlock reached' in out:
        res.violated = 'Deadlock'
    elif 'Temporal properties were violated' in out:
        res.violated = 'Liveness'
    if res.violated:
        res.error_trace = re.findall(
            r'^State \d+:.*?(?=^State \d+:|\Z|^\d+ states generated)',
            out, re.M | re.S)
    res.ok = (rc == 0 and not res.violated and not res.timed_out
              and ('Model checking completed. No error has been found' in out
                   or simulate is not None
                   or 'Finished in' in out))
    if not res.ok and not res.violated and not res.timed_out:
        raise MachineryError(
            f'TLC failed on {module} ({cfg}) rc={rc}:\n{out[-3000:]}')
    if ck and res.ok:
        _tlc_cache_put(ck, res)
    return res


def _tlc_cache_dir():
    d = os.path.join(os.environ.get('VERIF_CACHE') or os.path.join(VERIF, '.cache'), 'tlc')
    os.makedirs(d, exist_ok=True)
    return d


def _tlc_cache_key(module, cfg, simulate, depth, seed, extra, deadlock):
    h = hashlib.sha256()
    for fn in sorted(os.listdir(SPEC)):
        if fn.endswith('.tla') or fn == cfg:
            h.update(fn.encode())
            with open(os.path.join(SPEC, fn), 'rb') as f:
                h.update(f.read())
    for jar in TLA_CP.split(':'):
        try:
            st = os.stat(jar)
            h.update(f'{jar}:{st.st_size}:{int(st.st_mtime)}'.encode())
        except OSError:
            pass
    h.update(repr((module, cfg, simulate, depth, seed, tuple(extra), deadlock)).encode())
    return h.hexdigest()[:32]


def _tlc_cache_get(key):
    import gzip
    import pickle
    p = os.path.join(_tlc_cache_dir(), key + '.pkl.gz')
    if not os.path.exists(p):
        return None
    try:
        with gzip.open(p, 'rb') as f:
            res = pickle.load(f)
        res.cached = True
        return res
    except Exception:
        return None


def _tlc_cache_put(key, res):
    import gzip
    import pickle
    p = os.path.join(_tlc_cache_dir(), key + '.pkl.gz')
    tmp = p + f'.{os.getpid()}.tmp'
    try:
        with gzip.open(tmp, 'wb', compresslevel=1) as f:
            pickle.dump(res, f, -1)
        os.replace(tmp, p)
    except Exception:
        try:
            os.unlink(tmp)
        except OSError:
            pass


def sany(module, cwd=SPEC):
    p = subprocess.run(['java', '-cp', TLA_CP, 'tla2sany.SANY', module],
                       cwd=cwd, stdout=subprocess.PIPE,
                       stderr=subprocess.STDOUT, text=True)
    if p.returncode != 0 or 'Semantic errors' in p.stdout \
            or 'Could not parse' in p.stdout or '***Parse Error***' in p.stdout:
        raise MachineryError(f'SANY rejects {module}:\n{p.stdout[-2000:]}')
    return True


# --------------------------------------------------------------- TLA+ value printing
def tla(v) -> str:
    """Python value -> TLA+ expression text."""
    if isinstance(v, bool):
        return 'TRUE' if v else 'FALSE'
    if isinstance(v, int):
        return str(v)
    if isinstance(v, str):
        return json.dumps(v)
    if isinstance(v, (list, tuple)):
        return '<<' + ', '.join(tla(x) for x in v) + '>>'
    if isinstance(v, (set, frozenset)):
        return '{' + ', '.join(sorted(tla(x) for x in v)) + '}'
    if isinstance(v, dict):
        if not v:
            return '<<>>'
        if all(isinstance(k, str) and re.fullmatch(r'[A-Za-z_]\w*', k)
               for k in v):
            return '[' + ', '.join(f'{k} |-> {tla(x)}'
                                   for k, x in v.items()) + ']'
        return '(' + ' @@ '.join(f'{tla(k)} :> {tla(x)}'
                                 for k, x in v.items()) + ')'
    if v is None:
        return '"None"'
    raise TypeError(f'cannot render {v!r} as TLA+')


# --------------------------------------------------------------- TLA+ value parsing
class _P:
    def __init__(self, s):
        self.s = s
        self.i = 0

    def ws(self):
        s = self.s
        while self.i < len(s) and s[self.i] in ' \t\r\n':
            self.i += 1

    def peek(self, k=1):
        return self.s[self.i:self.i + k]

    def expect(self, t):
        self.ws()
        if not self.s.startswith(t, self.i):
            raise ValueError(f'expected {t!r} at {self.s[self.i:self.i+40]!r}')
        self.i += len(t)

    def value(self):
        self.ws()
        s = self.s
        c = s[self.i]
        if s.startswith('<<', self.i):
            self.i += 2
            out = []
            self.ws()
            if s.startswith('>>', self.i):
                self.i += 2
                return tuple(out)
            while True:
                out.append(self.value())
                self.ws()
                if s.startswith('>>', self.i):
                    self.i += 2
                    return tuple(out)
                self.expect(',')
        if c == '{':
            self.i += 1
            out = []
            self.ws()
            if s[self.i] == '}':
                self.i += 1
                return frozenset()
            while True:
                out.append(self.value())
                self.ws()
                if s[self.i] == '}':
                    self.i += 1
                    return frozenset(out)
                self.expect(',')
        if c == '[':
            self.i += 1
            out = {}
            while True:
                self.ws()
                m = re.compile(r'\w+').match(s, self.i)
                k = m.group(0)
                self.i = m.end()
                self.expect('|->')
                out[k] = self.value()
                self.ws()
                if s[self.i] == ']':
                    self.i += 1
                    return FrozenDict(out)
                self.expect(',')
        if c == '(':
            self.i += 1
            out = {}
            while True:
                k = self.value()
                self.expect(':>')
                out[k] = self.value()
                self.ws()
                if s[self.i] == ')':
                    self.i += 1
                    return FrozenDict(out)
                self.expect('@@')
        if c == '"':
            j = self.i + 1
            buf = []
            while s[j] != '"':
                if s[j] == '\\':
                    j += 1
                    buf.append({'n': '\n', 't': '\t'}.get(s[j], s[j]))
                else:
                    buf.append(s[j])
                j += 1
            self.i = j + 1
            return ''.join(buf)
        m = re.compile(r'-?\d+').match(s, self.i)
        if m:
            self.i = m.end()
            return int(m.group(0))
        m = re.compile(r'\w+').match(s, self.i)
        if m:
            self.i = m.end()
            w = m.group(0)
            if w == 'TRUE':
                return True
            if w == 'FALSE':
                return False
            return w   # model value
        raise ValueError(f'cannot parse TLA+ value at {s[self.i:self.i+40]!r}')


def _mk_set(*a):
    return frozenset(a)


class FrozenDict(dict):
    def __hash__(self):
        return hash(frozenset(self.items()))

    def __getattr__(self, k):
        try:
            return self[k]
        except KeyError:
            raise AttributeError(k)


_RE_KEY = re.compile(r'(\w+) \|->')


def fast_parse_tla(s: str):
    """TLC value text -> Python, via the Python parser (50x faster than
    parse_tla).  <<..>> -> tuple, [k |-> v] -> FrozenDict, {..} -> frozenset
    (an empty {} becomes an empty frozenset).  Falls back to parse_tla for
    texts it cannot translate (function displays with :> / @@)."""
    if ':>' in s or '@@' in s:
        return parse_tla(s)
    t = s.replace('<<>>', '()').replace('<<', '(').replace('>>', ',)')
    t = _RE_KEY.sub(r'"\1":', t)
    t = t.replace('[', '_R({').replace(']', '})')
    t = t.replace('{}', '_E').replace('TRUE', 'True').replace('FALSE', 'False')
    # remaining braces that do not follow _R( are set displays
    t = re.sub(r'(?<!_R\()\{', '_S(', t)
    t = re.sub(r'\}(?!\))', ')', t)
    try:
        return eval(t, {'__builtins__': {}}, _FP_ENV)
    except Exception:
        return parse_tla(s)


def parse_tla(s: str):
    p = _P(s)
    v = p.value()
    p.ws()
    if p.i != len(s):
        raise ValueError(f'trailing text {s[p.i:p.i+40]!r}')
    return v


_FP_ENV = {'_R': FrozenDict, '_S': _mk_set, '_E': frozenset()}


def parse_state(text: str) -> dict:
    """'/\\ a = 1\\n/\\ b = <<>>' -> {'a': 1, 'b': ()}"""
    out = {}
    parts = re.split(r'^\s*/\\ ', text.strip(), flags=re.M)
    for part in parts:
        part = part.strip()
        if not part:
            continue
        k, _, v = part.partition('=')
        out[k.strip()] = parse_tla(v.strip())
    return out


def parse_sim_trace(path: str):
    """Parse a file written by `tlc -simulate file=...`.

    Returns list of (action_name, state_dict)."""
    txt = open(path).read()
    out = []
    for m in re.finditer(
            r'\\\* <?(\w+)[^\n]*\nSTATE_\d+ ==\s*\n(.*?)(?=\n\s*\n|\Z)',
            txt, re.S):
        out.append((m.group(1), parse_state(m.group(2))))
    return out


# --------------------------------------------------------------- misc
def seed_from_env(default=0) -> int:
    try:
        return int(os.environ.get('VERIF_SEED', default))
    except ValueError:
        return default


def short(x, n=300):
    s = x if isinstance(x, str) else json.dumps(x, default=repr)
    return s if len(s) <= n else s[:n] + '...'
