"""C06 / C12 - the compiler's static claims (cardinality, duplicate-freedom,
result type) against the reference semantics of spec/EdgeQLSem.tla.

TLC evaluates every term of the universe on every database of the family and
prints the observation (sizes seen, duplicates seen, static type) plus the
full results on a few databases.  Here every term is
  * rendered as EdgeQL and compiled by the real compiler (IR level:
    compile_ast_to_ir -> cardinality / multiplicity / stype; server level:
    compiler.compile -> QueryUnit.cardinality and the output type descriptor);
  * evaluated by the repository's own evaluator edb/tools/toy_eval_model.py
    on the shown databases - it must agree with the specification's Eval
    (otherwise the term is reported as SPEC-DRIFT and not judged);
and the claims are compared with the observation.
"""
from __future__ import annotations

import collections
import json
import multiprocessing as mp
import random
import uuid

import lib

_S = {}

SCHEMA = [
    'create module default',
    'create scalar type Pos extending int64',
    'create scalar type Neg extending int64',
    'create type B { create required property m -> int64 { create constraint exclusive; }; '
    'create property s -> str; }',
    'create type A { create required property n -> int64 { create constraint exclusive; }; '
    'create property o -> int64; create multi property ms -> int64; '
    'create link l -> B; create multi link ml -> B; create required link rl -> B; }',
    'create type A2 extending A',
    'create type A3 extending A2',
]


def S():
    if _S:
        return _S
    import boot
    from edb.server.compiler import compiler as C, enums
    from edb import edgeql, errors
    from edb.edgeql import compiler as qlcompiler, parser as qlparser, qltypes
    from edb.tools import toy_eval_model as toy
    boot.compiler()
    ctx = boot.new_ctx()
    for q in SCHEMA:
        C.compile(ctx=ctx, source=edgeql.Source.from_string(q))
    user_schema = ctx.state.current_tx().get_user_schema()
    full = ctx.state.current_tx().get_schema(boot.std_schema())
    _S.update(boot=boot, C=C, enums=enums, edgeql=edgeql, errors=errors,
              qlcompiler=qlcompiler, qlparser=qlparser, qltypes=qltypes,
              toy=toy, user_schema=user_schema, schema=full)
    _patch_toy(toy)
    return _S


# --------------------------------------------------------------- rendering
def num_text(kind, p):
    if kind in ('float64', 'float32', 'decimal'):
        body = f'{p / 2:.1f}'
    else:
        if p % 2:
            raise ValueError('half-valued integer')
        body = str(p // 2)
    if kind == 'int64' or kind == 'float64':
        return body
    if kind == 'bigint' or kind == 'decimal':
        return body + 'n'
    return f'<{kind}>{body}'


def val_text(v):
    if v[0] == 'i':
        return num_text(v[1], v[2])
    if v[0] == 's':
        return repr(v[1])
    if v[0] == 'b':
        return 'true' if v[1] else 'false'
    raise ValueError(v)


def type_text(ty):
    if ty[0] == 'sc':
        return ty[1]
    if ty[0] == 'obj':
        return ty[1]
    if ty[0] == 'tuple':
        return f'tuple<{type_text(ty[1])}, {type_text(ty[2])}>'
    if ty[0] == 'array':
        return f'array<{type_text(ty[1])}>'
    raise ValueError(ty)


def render(t, var=None):
    op = t[0]
    R = lambda x: render(x, var)     # noqa: E731
    if op == 'lit':
        vals = t[1]
        if not vals:
            return f'<{type_text(t[2])}>{{}}'
        if len(vals) == 1:
            return val_text(vals[0])
        return '{' + ', '.join(val_text(v) for v in vals) + '}'
    if op == 'root':
        return f'(detached {t[1]})'
    if op == 'var':
        if var == '.':
            raise ValueError('bare shape subject')
        return var
    if op == 'ptr':
        if t[1][0] == 'var':
            return f'.{t[2]}' if var == '.' else f'{var}.{t[2]}'
        return f'({R(t[1])}).{t[2]}'
    if op == 'filter':
        return f'(select {R(t[1])} filter .{t[2]} = {val_text(t[3])})'
    if op == 'distinct':
        return f'(distinct {R(t[1])})'
    if op == 'count':
        return f'count({R(t[1])})'
    if op == 'exists':
        return f'(exists {R(t[1])})'
    if op == 'min':
        return f'min({R(t[1])})'
    if op == 'aagg':
        return f'array_agg({R(t[1])})'
    if op == 'unpack':
        return f'array_unpack({R(t[1])})'
    if op == 'enum':
        return f'enumerate({R(t[1])})'
    if op == 'limit':
        return f'(select {R(t[1])} limit {t[2]})'
    if op == 'limitc':
        return f'(select {R(t[1])} limit count(detached {t[2]}))'
    if op == 'offset':
        return f'(select {R(t[1])} offset {t[2]})'
    if op == 'isect':
        return f'({R(t[1])})[is {t[2]}]'
    if op == 'cast':
        return f'(<{t[1]}>{R(t[2])})'
    if op == 'rng':
        return f'range({num_text(t[1], 2)}, {num_text(t[1], 20)})'
    if op == 'rcast':
        return f'(<range<{t[1]}>>{R(t[2])})'
    if op in ('union', 'coal', 'plus', 'eq', 'opteq', 'in'):
        sym = {'union': 'union', 'coal': '??', 'plus': '+', 'eq': '=',
               'opteq': '?=', 'in': 'in'}[op]
        return f'({R(t[1])} {sym} {R(t[2])})'
    if op == 'tup':
        return f'({R(t[1])}, {R(t[2])})'
    if op == 'if':
        return f'({R(t[2])} if {R(t[1])} else {R(t[3])})'
    if op == 'for':
        if var == 'x':
            raise ValueError('nested for')
        return f'(for x in ({R(t[1])}) union ({render(t[2], "x")}))'
    raise ValueError(op)


def query_text(term):
    if term[0] == 'shape':
        return f'select (detached {term[1]}) {{ el := {render(term[2], ".")} }}'
    return 'select ' + render(term)


# ------------------------------------------------------------- expectations
def type_name(ty):
    """name the compiler / the descriptor uses for a spec type"""
    if ty[0] == 'sc':
        k = ty[1]
        return f'default::{k}' if k in ('Pos', 'Neg') else f'std::{k}'
    if ty[0] == 'obj':
        return f'default::{ty[1]}'
    if ty[0] == 'tuple':
        return f'tuple<{type_name(ty[1])}, {type_name(ty[2])}>'
    if ty[0] == 'array':
        return f'array<{type_name(ty[1])}>'
    if ty[0] == 'range':
        return f'range<std::{ty[1]}>'
    raise ValueError(ty)


def desc_name(d):
    """the same naming for a descriptor decoded by c14.describe"""
    if d[0] == 'scalar':
        return d[1]
    if d[0] == 'tuple':
        return 'tuple<' + ', '.join(desc_name(x) for x in d[1]) + '>'
    if d[0] == 'array':
        return f'array<{desc_name(d[1])}>'
    if d[0] == 'range':
        return f'range<{desc_name(d[1])}>'
    if d[0] == 'shape':
        return d[1]
    if d[0] == 'object':
        return d[1]
    return repr(d)


BOUNDS = {'ONE': (1, 1), 'AT_MOST_ONE': (0, 1), 'AT_LEAST_ONE': (1, None),
          'MANY': (0, None), 'NO_RESULT': (0, 0)}


def in_bounds(sizes, card):
    lo, hi = BOUNDS[card]
    return all(n >= lo and (hi is None or n <= hi) for n in sizes)


def stype_name(stype, schema):
    """structural name of a schema type, material types for views"""
    if stype.is_tuple(schema):  # takes schema
        subs = stype.get_subtypes(schema)
        return 'tuple<' + ', '.join(stype_name(s, schema) for s in subs) + '>'
    if stype.is_array():
        return f'array<{stype_name(stype.get_subtypes(schema)[0], schema)}>'
    if stype.is_range():
        return f'range<{stype_name(stype.get_subtypes(schema)[0], schema)}>'
    # views (aliased iterator values, shaped objects) name their material type
    mt = stype.material_type(schema)[1] if hasattr(stype, 'material_type') else stype
    if mt.is_object_type():
        comps = mt.get_union_of(schema).objects(schema)
        if comps:
            # a union type: its values belong to the component every other
            # component descends from, if there is one
            ms = [c.material_type(schema)[1] for c in comps]
            for c in ms:
                if all(o == c or o.issubclass(schema, c) for o in ms):
                    return str(c.get_name(schema))
            return 'union<' + ', '.join(sorted(str(c.get_name(schema)) for c in ms)) + '>'
        comps = mt.get_intersection_of(schema).objects(schema)
        if comps:
            # an intersection type (view & A2): its values belong to the
            # component that descends from every other one
            ms = [c.material_type(schema)[1] for c in comps]
            for c in ms:
                if all(o == c or c.issubclass(schema, o) for o in ms):
                    return str(c.get_name(schema))
            return 'intersection<' + ', '.join(sorted(str(c.get_name(schema)) for c in ms)) + '>'
    return str(mt.get_name(schema))


def compile_claims(term):
    """what the real compiler says about `term`; None if it rejects it"""
    st = S()
    text = query_text(term)
    qlc, qlp = st['qlcompiler'], st['qlparser']
    try:
        ir = qlc.compile_ast_to_ir(
            qlp.parse_query(text), st['schema'],
            options=qlc.CompilerOptions(modaliases={None: 'default'}))
    except st['errors'].EdgeDBError as e:
        return dict(text=text, rejected=f'{type(e).__name__}: {str(e)[:120]}')
    schema = ir.schema
    out = dict(text=text, rejected=None)
    if term[0] == 'shape':
        ptr = ir.stype.getptr(schema, _uq('el'))
        card = ptr.get_cardinality(schema)
        req = ptr.get_required(schema)
        out['card'] = ({(True, True): 'ONE', (True, False): 'AT_MOST_ONE',
                        (False, True): 'AT_LEAST_ONE', (False, False): 'MANY'}
                       [(card.is_single(), bool(req))])
        tgt = ptr.get_target(schema)
        out['stype'] = stype_name(tgt, schema)
        out['is_link'] = tgt.is_object_type()
        out['mult'] = 'UNIQUE' if out['is_link'] else None
    else:
        out['card'] = ir.cardinality.name
        out['mult'] = ir.multiplicity.name
        out['stype'] = stype_name(ir.stype, schema)
    # server level: what is sent to the client
    C = st['C']
    ctx = st['boot'].new_ctx(user_schema=st['user_schema'])
    try:
        ug = C.compile(ctx=ctx, source=st['edgeql'].Source.from_string(text))
        u = ug[0]
        out['unit_card'] = u.cardinality.name
        import c14
        blocks = c14.decode_v2(u.out_type_data)
        d = c14.describe(blocks, c14.root_index(blocks))
        if term[0] == 'shape':
            el = [e for e in d[2] if e[0] == 'el']
            out['desc'] = desc_name(el[0][2]) if el else None
            out['desc_card'] = el[0][1] if el else None
        else:
            out['desc'] = desc_name(d)
    except st['errors'].EdgeDBError as e:
        out['unit_error'] = f'{type(e).__name__}: {str(e)[:120]}'
    return out


def _uq(name):
    from edb.schema import name as sn
    return sn.UnqualName(name)


# ---------------------------------------------------------------- toy model
def _patch_toy(toy):
    """the toy evaluator matches type names exactly ("TODO: we want actual
    types"); teach it the A <- A2 <- A3 chain of this schema"""
    sub = {'A': {'A', 'A2', 'A3'}, 'A2': {'A2', 'A3'}, 'A3': {'A3'}, 'B': {'B'}}

    def eval_objref(name, ctx):
        if name == 'FreeObject':
            return [toy.mk_free_object()]
        return [toy.Obj(o['id']) for o in ctx.db.data.values()
                if o['__type__'] in sub.get(name, {name})]

    def eval_intersect(base, ptr, ctx):
        typ = ctx.db.data[base.id]['__type__']
        return [base] if typ in sub.get(ptr.typ, {ptr.typ}) else []
    toy.eval_objref = eval_objref
    toy.eval_intersect = eval_intersect


def toy_db(db):
    toy = S()['toy']
    objs = []
    for i, o in enumerate(db, 1):
        d = {'id': toy.bsid(i), '__type__': o['ty']}

        def pv(v):
            if v[0] == 'i':
                return v[2] // 2 if v[2] % 2 == 0 else v[2] / 2
            if v[0] == 's':
                return v[1]
            if v[0] == 'o':
                return toy.Obj(toy.bsid(v[1]))
            raise ValueError(v)
        if o['ty'] == 'B':
            d['m'] = pv(o['m'][0])
            if o['s']:
                d['s'] = pv(o['s'][0])
        else:
            d['n'] = pv(o['n'][0])
            if o['o']:
                d['o'] = pv(o['o'][0])
            d['ms'] = [pv(v) for v in o['ms']]
            if o['l']:
                d['l'] = pv(o['l'][0])
            d['ml'] = [pv(v) for v in o['ml']]
            d['rl'] = pv(o['rl'][0])
        objs.append(d)
    return toy.mk_db(objs, {})


def canon_spec(v):
    if v[0] == 'i':
        return ('n', float(v[2]) / 2)
    if v[0] == 's':
        return ('s', v[1])
    if v[0] == 'b':
        return ('b', bool(v[1]))
    if v[0] == 'o':
        return ('o', v[1])
    if v[0] == 't':
        return ('t', tuple(canon_spec(x) for x in v[1]))
    if v[0] == 'a':
        return ('a', tuple(canon_spec(x) for x in v[1]))
    if v[0] == 'r':
        return ('r', float(v[2]) / 2, float(v[3]) / 2)
    raise ValueError(v)


def canon_toy(v):
    toy = S()['toy']
    if isinstance(v, bool):
        return ('b', v)
    if isinstance(v, (int, float)):
        return ('n', float(v))
    if isinstance(v, str):
        return ('s', v)
    if isinstance(v, toy.Obj):
        return ('o', v.id.int & 0xffffffffffff)
    if isinstance(v, tuple):
        return ('t', tuple(canon_toy(x) for x in v))
    if isinstance(v, list):
        return ('a', tuple(canon_toy(x) for x in v))
    raise ValueError(v)


def toy_eval(term, tdb):
    toy = S()['toy']
    text = query_text(term)
    q = toy.parse(text)
    return toy.toplevel_query(q, tdb)


def bag(xs):
    return collections.Counter(xs)


# ---------------------------------------------------------------- TLC side
def parse_output(output):
    outs, shows, dbs = [], {}, None
    for line in output.splitlines():
        if line.startswith('"OUT '):
            term, ty, sizes, dup, ref, refm = lib.fast_parse_tla(
                line[5:-1].replace('\\"', '"'))
            outs.append((term, ty, sorted(sizes), dup, (tuple(ref), refm)))
        elif line.startswith('"SHOW '):
            term, shown = lib.fast_parse_tla(line[6:-1].replace('\\"', '"'))
            shows[term] = shown
        elif line.startswith('"DBS '):
            dbs = lib.fast_parse_tla(line[5:-1].replace('\\"', '"'))
    return outs, shows, dbs


def judge(term, ty, sizes, dup, shown, tdbs, want, ref=None):
    """returns dict(status=ok|rejected|drift|VIOLATION, ...)"""
    claims = compile_claims(term)
    res = dict(text=claims['text'], claims=claims, failed=[], drift=None)
    if claims['rejected']:
        res['status'] = 'rejected'
        return res
    # conformance of the specification: the repository's evaluator agrees
    toy_state = 'not-run'
    if shown is not None and tdbs is not None and term[0] != 'shape':
        toy_state = 'agree'
        for i, (tdb, exp) in enumerate(zip(tdbs, shown)):
            try:
                got = toy_eval(term, tdb)
                gb = bag(canon_toy(v) for v in got)
            except Exception as e:        # evaluator does not support the term
                toy_state = f'unsupported: {type(e).__name__}'
                break
            eb = bag(canon_spec(v) for v in exp)
            if gb != eb:
                toy_state = 'disagree'
                res['drift'] = (f'{claims["text"]}: on database #{i} the '
                                f'specification yields {sorted(eb.elements())[:6]} '
                                f'but edb/tools/toy_eval_model.py yields '
                                f'{sorted(gb.elements())[:6]}')
                break
    res['toy'] = toy_state
    if toy_state == 'disagree':
        res['status'] = 'drift'
        return res
    f = res['failed']
    if 'C06' in want:
        if not in_bounds(sizes, claims['card']):
            f.append(('card', f"reported cardinality {claims['card']} but the "
                              f"query yields {sizes} elements on conforming databases"))
        if claims.get('unit_card') and term[0] != 'shape' \
                and not in_bounds(sizes, claims['unit_card']):
            f.append(('unit_card', f"cardinality sent to the client {claims['unit_card']} "
                                   f"but the query yields {sizes} elements"))
        if claims.get('mult') == 'UNIQUE' and dup:
            f.append(('mult', 'classified duplicate-free (UNIQUE) but the result '
                              'contains duplicates on a conforming database'))
        if claims.get('mult') == 'EMPTY' and sizes != [0]:
            f.append(('mult', f'classified EMPTY but yields {sizes} elements'))
    if 'C12' in want:
        exp = type_name(ty)
        if claims['stype'] != exp:
            f.append(('stype', f"inferred result type {claims['stype']} but every "
                               f"evaluated value has type {exp}"))
        if claims.get('desc') is not None and claims['desc'] != exp \
                and not claims['desc'].startswith('__derived__::'):
            f.append(('desc', f"type reported to the client {claims['desc']} but "
                              f"evaluated values have type {exp}"))
    # the compiler's claim next to the specification's reference inference
    if ref is not None and claims.get('card') in BOUNDS:
        (rlo, rhi), refm = ref
        lo, hi = BOUNDS[claims['card']]
        hi = 2 if hi is None else hi
        if claims.get('mult') in ('UNIQUE', 'DUPLICATE'):
            cm = 'U' if claims['mult'] == 'UNIQUE' else 'D'
            res['mult_vs_reference'] = ('same' if cm == refm else
                                        'tighter' if cm == 'U' else 'looser')
        if (lo, hi) == (rlo, min(rhi, 2)) or (rhi == 0 and hi <= 1 and lo == 0):
            res['vs_reference'] = 'same'
        elif lo >= rlo and hi <= max(rhi, 1 if rhi == 0 else rhi):
            res['vs_reference'] = 'tighter'
        else:
            res['vs_reference'] = 'looser'
    res['status'] = 'VIOLATION' if f else 'ok'
    return res


def _job(args):
    rows, dbs, want = args
    S()
    tdbs = [toy_db(d) for d in dbs] if dbs is not None else None
    out = []
    counts = collections.Counter()
    for term, ty, sizes, dup, shown, ref in rows:
        try:
            r = judge(term, ty, sizes, dup, shown, tdbs, want, ref)
        except (ValueError, RecursionError) as e:
            counts['unrenderable'] += 1
            continue
        counts[r['status']] += 1
        if r.get('vs_reference'):
            counts['ref:' + r['vs_reference']] += 1
        if r.get('mult_vs_reference'):
            counts['refm:' + r['mult_vs_reference']] += 1
        counts['toy:' + r.get('toy', 'n/a').split(':')[0]] += 1
        if r['status'] in ('VIOLATION', 'drift'):
            out.append(dict(status=r['status'], term=_js(term), text=r['text'],
                            failed=r['failed'], drift=r['drift'],
                            claims=r['claims'], sizes=sizes, dup=dup,
                            static_type=_js(ty)))
    return counts, out


def _js(x):
    if isinstance(x, (tuple, list)):
        return [_js(y) for y in x]
    if isinstance(x, frozenset):
        return sorted(_js(y) for y in x)
    if isinstance(x, dict):
        return {k: _js(v) for k, v in x.items()}
    return x


def _tt(x):
    if isinstance(x, list):
        return tuple(_tt(y) for y in x)
    return x


def replay(path, rep):
    d = json.load(open(path))['replay']
    S()
    print(json.dumps(compile_claims(_tt(d['term'])), indent=1, default=str))
    print('observed sizes', d['sizes'], 'duplicates', d['dup'],
          'static type', d['static_type'])


def run(pid, tier, seed, rep):
    quick = tier == 'quick'
    S()
    want = {pid}
    levels = [('EdgeQLSem_1.cfg', None), ('EdgeQLSem_2.cfg', 2500 if quick else None)]
    if not quick:
        levels.append(('EdgeQLSem_3.cfg', 30000))
    rnd = random.Random(seed)
    totals = collections.Counter()
    mc = {}
    nstates = ntrans = 0
    sample = None
    with mp.Pool(lib.NCPU) as pool:
        for cfg, cap in levels:
            r = lib.run_tlc('EdgeQLSem', cfg, timeout=3000, deadlock=False, heap='16g')
            if r.violated:
                raise lib.MachineryError(
                    f'EdgeQLSem {cfg}: a model-level law fails: {r.violated}\n'
                    f'{r.output[-1500:]}')
            mc[cfg] = r.summary()
            nstates += r.distinct
            ntrans += r.generated
            outs, shows, dbs = parse_output(r.output)
            if cap and len(outs) > cap:
                rnd.shuffle(outs)
                outs = outs[:cap]
            rows = [(t, ty, sz, dup, shows.get(t), ref) for t, ty, sz, dup, ref in outs]
            sample = sample or rows[len(rows) // 2]
            chunks = [rows[i::lib.NCPU * 4] for i in range(lib.NCPU * 4)]
            for counts, out in pool.imap_unordered(
                    _job, [(ch, dbs, want) for ch in chunks if ch]):
                totals.update(counts)
                for v in out:
                    if v['status'] == 'drift':
                        if len(rep.drift) < 10:
                            rep.spec_drift(v['drift'])
                        continue
                    kinds = sorted({k for k, _ in v['failed']})
                    rep.violation(f"{'+'.join(kinds)}:{v['text']}",
                                  f"`{v['text']}`: " + '; '.join(w for _, w in v['failed'][:2]), v)
    n = sum(totals[k] for k in ('ok', 'VIOLATION', 'rejected', 'drift'))
    cov = dict(states=nstates, transitions=ntrans, model_checking=mc,
               traces_validated_against_impl=n,
               samples=[dict(term=_js(sample[0]), text=query_text(sample[0]),
                             sizes=sample[2], duplicates=sample[3])],
               terms=n, judged=totals['ok'] + totals['VIOLATION'],
               rejected_by_compiler=totals['rejected'],
               spec_vs_toy_disagreements=totals['drift'],
               toy_crosscheck={k[4:]: v for k, v in totals.items() if k.startswith('toy:')},
               unrenderable=totals['unrenderable'],
               compiler_vs_reference_inference={k[4:]: v for k, v in totals.items()
                                                if k.startswith('ref:')},
               compiler_vs_reference_multiplicity={k[5:]: v for k, v in totals.items()
                                                   if k.startswith('refm:')},
               evaluations=n, distinct_nontrivial=totals['ok'] + totals['VIOLATION'],
               rule='one case = one term of the EdgeQLSem.tla universe, evaluated '
                    'by TLC on every database of the family, compiled by the real '
                    'compiler and compared; non-trivial = accepted by the compiler '
                    'and not in disagreement with the toy evaluator')
    return dict(level='model_checking', coverage=cov, assumptions=[
        'reference semantics = EdgeQLSem.tla (bag semantics with explicit '
        'variable binding, every type root DETACHED); no PostgreSQL here, so '
        '"evaluation" is the specification cross-checked with the '
        "repository's own evaluator",
        'database family: 0..2 B objects, 0..2 A/A2/A3 objects with three '
        'pointer profiles (empty, full, duplicates)',
        lib.SHIM_TRUST])
