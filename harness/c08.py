"""C08 - declared capabilities cover what a statement does.

Spec: spec/Caps.tla enumerates statement kind x nesting context x mutating
leaf (and two-statement scripts) with the capability flags each MUST carry.
Every combination is rendered as EdgeQL over a fixed schema (with user
functions whose bodies insert / update), compiled by the real server
compiler, and compared:
  * QueryUnit.capabilities (and the unit group's) include every expected flag;
  * if MODIFICATIONS is absent, the compiled IR contains no mutating
    statement and no call of a data-modifying function;
  * a combination the compiler rejects is fine (counted).
"""
from __future__ import annotations

import json
import multiprocessing as mp

import lib

_S = {}

SCHEMA = [
    'create module default',
    'create type T { create property n -> str; create multi link ml -> T; '
    'create link l -> T; }',
    'create type U { create required property name -> str { create constraint exclusive; }; }',
    'create function fn_insert() -> T { set volatility := "Modifying"; '
    'using (insert T { n := "f" }) }',
    'create global cur -> int64',
    # volatility of these is left to inference on purpose
    'create function fn_with(x: str) -> int64 '
    'using (with u := (update T filter .n = x set { n := "h" }) select count(u))',
    'create function leaf() -> int64 using (1)',
    'create function mid() -> int64 using (leaf() + 1)',
    'create function top() -> int64 using (mid() + 1)',
    'alter function leaf() using (count((insert T { n := "leaf" })))',
    'create function fn_update(x: str) -> set of T { set volatility := "Modifying"; '
    'using (update T filter .n = x set { n := "g" }) }',
]


def S():
    if _S:
        return _S
    import boot
    from edb.server.compiler import compiler as C, enums
    from edb import edgeql, errors
    from edb.ir import ast as irast
    boot.compiler()
    ctx = boot.new_ctx()
    for q in SCHEMA:
        C.compile(ctx=ctx, source=edgeql.Source.from_string(q))
    _S.update(boot=boot, C=C, enums=enums, edgeql=edgeql, errors=errors,
              irast=irast, schema=ctx.state.current_tx().get_user_schema())
    return _S


LEAF = {
    'none': '(select T filter .n = "x")',
    'insert': '(insert T { n := "i" })',
    'update': '(update T filter .n = "u" set { n := "v" })',
    'delete': '(delete T filter .n = "d")',
    'fn_insert': 'fn_insert()',
    'fn_update': 'fn_update("q")',
    'fn_withdml': '(select T filter .n = <str>fn_with("q"))',
    'fn_chain': '(select T filter .n = <str>top())',
}


def render_query(leaf, ctx):
    L = LEAF[leaf]
    if ctx == 'top':
        return f'select {L}' if leaf in ('none', 'fn_insert', 'fn_update', 'fn_withdml', 'fn_chain') else L[1:-1]
    if ctx == 'with_binding':
        return f'with x := {L} select x'
    if ctx == 'for_body':
        return f'for i in {{1, 2}} union {L}'
    if ctx == 'shape_element':
        return f'select U {{ name, z := {L} }}'
    if ctx == 'subquery_in_filter_of_dml':
        return f'update U filter exists {L} set {{ name := .name }}'
    if ctx == 'unless_conflict_else':
        return (f'insert U {{ name := "a" }} unless conflict on .name '
                f'else (select U filter exists {L})')
    if ctx == 'func_arg':
        return f'select count({L})'
    if ctx == 'tuple_element':
        return f'select (1, {L})'
    if ctx == 'set_element':
        return f'select {{ {L}, {L} }}'
    if ctx == 'coalesce_rhs':
        return f'select (select T filter .n = "zz") ?? {L}'
    if ctx == 'if_branch':
        return f'select {L} if <bool>$0 else (select T filter .n = "no")'
    if ctx == 'nested_for_in_with':
        return f'with y := (for i in {{1}} union {L}) select count(y)'
    if ctx == 'insert_link_value':
        return f'insert T {{ n := "w", l := assert_single({L}) }}'
    if ctx == 'update_set_value':
        return f'update T filter .n = "k" set {{ ml := {L} }}'
    if ctx == 'select_wrapper':
        return f'select (select {L}) {{ n }}'
    if ctx == 'group_by_subject':
        return f'select (group {L} by .n) {{ key: {{ n }} }}'
    raise ValueError(ctx)


OTHER = {
    'ddl_create_type': 'create type Z9',
    'ddl_alter': 'alter type T create property extra -> int64',
    'start_migration': 'start migration to { module default { type T { n: str; '
                       'multi ml: T; l: T; }; type U { required name: str '
                       '{ constraint exclusive; } }; function fn_insert() -> T '
                       '{ volatility := "Modifying"; using (insert T { n := "f" }) }; '
                       'function fn_update(x: str) -> set of T { volatility := '
                       '"Modifying"; using (update T filter .n = x set { n := "g" }) } } }',
    'populate_migration': None, 'commit_migration': None, 'abort_migration': None,
    'start_tx': 'start transaction',
    'commit': None, 'rollback': 'rollback',
    'declare_savepoint': None, 'release_savepoint': None, 'rollback_to_savepoint': None,
    'configure_session': 'configure session set allow_user_specified_id := true',
    'reset_session': 'configure session reset allow_user_specified_id',
    'set_alias': 'set alias foo as module std',
    'set_module': 'set module default',
    'configure_database': 'configure current database set allow_user_specified_id := true',
    'configure_instance': 'configure instance set session_idle_timeout := <duration>"1m"',
    'describe': 'describe schema as sdl',
    'select_only': 'select 1',
}
# statements that need a preceding statement to be meaningful: (setup, stmt)
NEEDS = {
    'populate_migration': (['start migration to { module default { type T { n: str; multi ml: T; l: T; }; type U { required name: str { constraint exclusive; } }; type NewOne; function fn_insert() -> T { volatility := "Modifying"; using (insert T { n := "f" }) }; function fn_update(x: str) -> set of T { volatility := "Modifying"; using (update T filter .n = x set { n := "g" }) } } }'], 'populate migration'),
    'commit_migration': (['start migration to { module default { type T { n: str; multi ml: T; l: T; }; type U { required name: str { constraint exclusive; } }; type NewOne; function fn_insert() -> T { volatility := "Modifying"; using (insert T { n := "f" }) }; function fn_update(x: str) -> set of T { volatility := "Modifying"; using (update T filter .n = x set { n := "g" }) } } }', 'populate migration'], 'commit migration'),
    'abort_migration': (['start migration to { module default { type T { n: str; multi ml: T; l: T; }; type U { required name: str { constraint exclusive; } }; type NewOne; function fn_insert() -> T { volatility := "Modifying"; using (insert T { n := "f" }) }; function fn_update(x: str) -> set of T { volatility := "Modifying"; using (update T filter .n = x set { n := "g" }) } } }'], 'abort migration'),
    'commit': (['start transaction'], 'commit'),
    'declare_savepoint': (['start transaction'], 'declare savepoint sp'),
    'release_savepoint': (['start transaction', 'declare savepoint sp'], 'release savepoint sp'),
    'rollback_to_savepoint': (['start transaction', 'declare savepoint sp'], 'rollback to savepoint sp'),
}


def render_set_global(leaf, ctx):
    L = LEAF[leaf]
    if ctx == 'func_arg':
        return f'set global cur := count({L})'
    if ctx == 'with_binding':
        return f'set global cur := (with x := {L} select count(x))'
    if ctx == 'for_body':
        return f'set global cur := count((for i in {{1, 2}} union {L}))'
    if ctx == 'if_branch':
        return f'set global cur := count({L}) if true else 0'
    raise ValueError(ctx)


def render(stmt):
    if stmt['kind'] == 'query':
        return [], render_query(stmt['leaf'], stmt['ctx'])
    if stmt['kind'] == 'set_global':
        return [], render_set_global(stmt['leaf'], stmt['ctx'])
    if stmt['kind'] in NEEDS:
        return NEEDS[stmt['kind']]
    return [], OTHER[stmt['kind']]


def ir_writes(unit_ir_checker, text, ctx):
    """independent look at the IR: does it contain a mutating statement or a
    call of a function that modifies data?"""
    st = S()
    from edb.edgeql import compiler as qlcompiler, parser as qlparser
    from edb.ir import ast as irast
    from edb.common import ast as cast
    from edb.edgeql import qltypes
    schema = ctx.state.current_tx().get_schema(st['boot'].std_schema())
    found = []
    for stmt in qlparser.parse_block(text):
        try:
            ir = qlcompiler.compile_ast_to_ir(
                stmt, schema,
                options=qlcompiler.CompilerOptions(
                    modaliases={None: 'default'}, json_parameters=False))
        except Exception:
            continue
        if not hasattr(ir, 'expr'):
            continue
        for node in cast.find_children(ir, irast.MutatingStmt):
            found.append(type(node).__name__)
        for node in cast.find_children(ir, irast.FunctionCall):
            if node.volatility == qltypes.Volatility.Modifying:
                found.append(f'call {node.func_shortname}')
        if getattr(ir, 'dml_exprs', None):
            pass
    return found


def check_script(script, expected):
    st = S()
    C, Cap = st['C'], st['enums'].Capability
    ctx = st['boot'].new_ctx(user_schema=st['schema'])
    setups, texts = [], []
    for s in script:
        su, t = render(s)
        setups += su
        texts.append(t)
    try:
        for q in setups:
            C.compile(ctx=ctx, source=st['edgeql'].Source.from_string(q))
    except st['errors'].EdgeDBError as e:
        raise lib.MachineryError(f'setup statement rejected: {q}: {e}')
    text = '; '.join(texts) + ';' if len(texts) > 1 else texts[0]
    try:
        ug = C.compile(ctx=ctx, source=st['edgeql'].Source.from_string(text))
    except st['errors'].EdgeDBError as e:
        return 'rejected', text, [], f'{type(e).__name__}: {str(e)[:100]}'
    bad = []
    got = Cap(0)
    for u in ug:
        got |= u.capabilities
    grp = ug.capabilities
    if (grp & got) != got:
        bad.append(f'the unit group declares {grp!r} but its units declare {got!r}')
    for name in expected:
        flag = getattr(Cap, name)
        if not (grp & flag):
            bad.append(f'capability {name} is missing (declared: {grp!r})')
    if not (grp & Cap.MODIFICATIONS):
        ctx2 = st['boot'].new_ctx(user_schema=st['schema'])
        w = ir_writes(None, text, ctx2)
        if w:
            bad.append(f'no MODIFICATIONS flag but the compiled IR contains {w[:3]}')
    return 'ok', text, bad, None


def parse_out(output):
    rows = []
    for line in output.splitlines():
        if line.startswith('"OUT '):
            txt = line[5:-1].replace('\\"', '"')
            script, caps = lib.fast_parse_tla(txt)
            rows.append((script, sorted(caps)))
    return rows


def _job(rows):
    S()
    out = []
    nrej = 0
    for script, caps in rows:
        status, text, bad, why = check_script(script, caps)
        if status == 'rejected':
            nrej += 1
        if bad:
            out.append(dict(script=[dict(s) for s in script], text=text,
                            expected=caps, failed=bad))
    return len(rows), nrej, out


def replay(path, rep):
    d = json.load(open(path))['replay']
    status, text, bad, why = check_script(d['script'], d['expected'])
    print(status, text, bad, why)


def run(tier, seed, rep):
    S()
    r = lib.run_tlc('Caps', 'Caps.cfg', timeout=600, deadlock=False)
    if r.violated:
        raise lib.MachineryError(f'Caps: {r.violated}')
    rows = parse_out(r.output)
    n = nrej = 0
    with mp.Pool(lib.NCPU) as pool:
        chunks = [rows[i::lib.NCPU * 2] for i in range(lib.NCPU * 2)]
        for c, rj, out in pool.imap_unordered(_job, [ch for ch in chunks if ch]):
            n += c
            nrej += rj
            for v in out:
                rep.violation('caps:' + v['text'],
                              f"`{v['text']}`: " + '; '.join(v['failed'][:2]), v)
    cov = dict(states=r.distinct, transitions=r.generated,
               traces_validated_against_impl=n,
               samples=[dict(script=[dict(s) for s in rows[7][0]], expected=rows[7][1])],
               exhaustive=True, combinations=n, rejected_by_compiler=nrej,
               evaluations=n, distinct_nontrivial=n - nrej,
               rule='every (statement kind x nesting context x leaf) and every '
                    'two-statement script of Caps.tla, rendered as EdgeQL and '
                    'compiled; non-trivial = accepted by the compiler')
    return dict(level='model_checking', coverage=cov, assumptions=[
        'fixed schema with two data-modifying user functions',
        lib.SHIM_TRUST])
