"""Schedule sources and TLC trace validation shared by C15 and C16."""
from __future__ import annotations

import glob
import json
import multiprocessing as mp
import os
import random
import re
import warnings

import lib
import connpool_driver as D

warnings.simplefilter('ignore')

CONFIGS = {
    # name: driver config ; the trace spec is instantiated with the same constants
    'k1': dict(dbs=['d1', 'd2'], clients=['c1', 'c2'], max=1, retries=1),
    'k2': dict(dbs=['d1', 'd2', 'd3'], clients=['c1', 'c2', 'c3', 'c4'], max=2,
               retries=1),
    'k3': dict(dbs=['d1', 'd2', 'd3', 'd4'],
               clients=['c1', 'c2', 'c3', 'c4', 'c5'], max=3, retries=2),
    'k4': dict(dbs=['d1'], clients=['c1', 'c2', 'c3'], max=2, retries=1),
}


def run_random(cfg, seed, n, bias=3, weights=None):
    """One random schedule of up to n environment actions.

    Returns (schedule, trace, violations)."""
    rnd = random.Random(seed)
    w = D.World(cfg['dbs'], cfg['clients'], cfg['max'], cfg.get('retries', 1))
    trace, sched, viol = [], [], []
    # per-run flavour: how eager the loop is, how often things fail
    p_fail = rnd.choice([0.0, 0.1, 0.35])
    p_discard = rnd.choice([0.0, 0.2, 0.5])
    eager = rnd.choice([1, 3, 8])
    try:
        for _ in range(n):
            acts = w.enabled()
            if not acts:
                break
            pool = []
            for a in acts:
                k = a[0]
                wgt = 2
                if k == 'RunOne':
                    wgt = 2 * eager
                elif k == 'CompleteConnect':
                    wgt = 2 if a[2] else (2 * p_fail)
                elif k == 'Release':
                    wgt = 2 * p_discard if a[2] else 2 * (1 - p_discard)
                elif k == 'FireTimer':
                    wgt = 1.5
                pool.append(wgt)
            a = rnd.choices(acts, weights=pool)[0]
            sched.append(a)
            logged = w.do(a)
            trace.append(w.event(logged))
            bad = w.check()
            if bad:
                viol.append((len(sched), bad))
                break
    finally:
        w.close()
    return sched, trace, viol


def _rand_job(args):
    cname, seed0, count, n = args
    cfg = CONFIGS[cname]
    out_tr, out_v = [], []
    acts = {}
    for i in range(count):
        sched, tr, viol = run_random(cfg, seed0 + i, n)
        for e in tr:
            acts[e['a']] = acts.get(e['a'], 0) + 1
        out_tr.append(tr)
        for (at, bad) in viol:
            out_v.append(dict(cfg=cname, seed=seed0 + i, schedule=sched,
                              at=at, failed=bad))
    return cname, out_tr, out_v, acts


def _dfs_job(args):
    """exhaustive enumeration of schedules below a prefix, by re-execution."""
    cname, prefix, depth = args
    cfg = CONFIGS[cname]
    out_v = []
    count = 0
    leaves = []

    def rec(path):
        nonlocal count
        w = D.World(cfg['dbs'], cfg['clients'], cfg['max'], cfg.get('retries', 1))
        try:
            for a in path:
                w.do(a)
                bad = w.check()
                if bad:
                    out_v.append(dict(cfg=cname, schedule=list(path),
                                      at=len(path), failed=bad))
                    return
            acts = w.enabled()
        finally:
            w.close()
        count += 1
        if len(path) >= depth or not acts:
            leaves.append(path)
            return
        # canonical reduction: while callbacks are ready and nothing else
        # distinguishes, still branch fully (interleavings are the point)
        for a in acts:
            rec(path + [a])
    rec(list(prefix))
    return cname, count, len(leaves), out_v


def dfs_prefixes(cname, plen):
    cfg = CONFIGS[cname]
    out = [[]]
    for _ in range(plen):
        nxt = []
        for pfx in out:
            w = D.World(cfg['dbs'], cfg['clients'], cfg['max'],
                        cfg.get('retries', 1))
            try:
                for a in pfx:
                    w.do(a)
                acts = w.enabled()
            finally:
                w.close()
            for a in acts:
                nxt.append(pfx + [a])
        out = nxt
    return out


# ------------------------------------------------------------------ TLC
def cfg_text(cfg, spec='TraceSpec', extra=''):
    def S(xs):
        return '{' + ', '.join(json.dumps(x) for x in xs) + '}'
    return f'''SPECIFICATION {spec}
CONSTANTS
    DBs = {S(cfg['dbs'])}
    Clients = {S(cfg['clients'])}
    MaxCap = {cfg['max']}
    Retries = {cfg.get('retries', 1)}
    TaskIds = {{{', '.join(str(i) for i in range(1, 13))}}}
    MaxConnId = {cfg['max'] + len(cfg['clients']) + 4}
    FailBudget = 100000
    MaxOps = 100000
    TrackAct = TRUE
    FairPolicy = FALSE
{extra}
CHECK_DEADLOCK FALSE
'''


_RE_V = re.compile(r'<<"(ACCEPT|REJECT|INV)", (.*?)>>')


def validate_traces(cname, traces, workers=4, timeout=3000):
    """TLC trace validation of a batch.  Returns dict(accepted=set,
    rejected={t: l}, inv=[(name,t,l)], states=..)."""
    cfg = CONFIGS[cname]
    d = lib.scratch('trace-')
    tf = os.path.join(d, 'traces.json')
    with open(tf, 'w') as f:
        json.dump(traces, f)
    cf = os.path.join(d, 'Trace.cfg')
    with open(cf, 'w') as f:
        f.write(cfg_text(cfg, extra='INVARIANT Report'))
    r = lib.run_tlc('TraceConnPool', cf, workers=workers, timeout=timeout,
                    env={'TRACE_FILE': tf}, deadlock=False)
    acc, rej, inv = set(), {}, []
    for m in _RE_V.finditer(r.output):
        kind, rest = m.group(1), m.group(2)
        parts = [x.strip().strip('"') for x in rest.split(',')]
        if kind == 'ACCEPT':
            acc.add(int(parts[0]))
        elif kind == 'REJECT':
            t, l = int(parts[0]), int(parts[1])
            rej[t] = max(l, rej.get(t, 0))
        else:
            inv.append((parts[0], int(parts[1]), int(parts[2])))
    # a trace is rejected only if NO branch accepted it
    rej = {t: l for t, l in rej.items() if t not in acc}
    missing = set(range(1, len(traces) + 1)) - acc - set(rej)
    if missing:
        raise lib.MachineryError(
            f'trace validation gave no verdict for traces {sorted(missing)[:5]}'
            f'\n{r.output[-2000:]}')
    return dict(accepted=acc, rejected=rej, inv=inv, states=r.distinct,
                generated=r.generated, wall=r.wall)


def tlc_simulated_schedules(cname, num, depth, seed):
    """Behaviours of ConnPool produced by `tlc -simulate`, projected on the
    environment actions (hist.act)."""
    cfg = CONFIGS[cname]
    d = lib.scratch('sim-')
    cf = os.path.join(d, 'Sim.cfg')
    with open(cf, 'w') as f:
        f.write(cfg_text(cfg, spec='Spec'))
    base = os.path.join(d, 'tr')
    lib.run_tlc('ConnPool', cf, workers=1, timeout=1200,
                simulate=f'file={base},num={num}', depth=depth, seed=seed,
                deadlock=False)
    scheds = []
    for fn in sorted(glob.glob(base + '*')):
        txt = open(fn).read()
        sched = []
        for m in re.finditer(r'act \|-> <<(.*?)>>', txt):
            parts = [x.strip() for x in m.group(1).split(',')]
            name = parts[0].strip('"')
            if name == 'Init':
                continue
            args = []
            for x in parts[1:]:
                if x in ('TRUE', 'FALSE'):
                    args.append(x == 'TRUE')
                elif x.startswith('"'):
                    args.append(x.strip('"'))
                else:
                    args.append(int(x))
            if name in ('FireTick', 'FireGC'):
                sched.append(('FireTimer',))
            else:
                sched.append((name, *args))
        scheds.append(sched)
    return scheds


def run_given(cname, sched):
    cfg = CONFIGS[cname]
    tr, viol = D.run_schedule(cfg, sched)
    return tr, [dict(cfg=cname, schedule=[list(a) for a in sched], at=n,
                     failed=bad) for n, bad in viol]


def _given_job(args):
    cname, scheds = args
    out_tr, out_v = [], []
    for s in scheds:
        tr, v = run_given(cname, s)
        out_tr.append(tr)
        out_v.extend(v)
    return cname, out_tr, out_v


def pool():
    return mp.Pool(lib.NCPU)
