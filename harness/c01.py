"""C01 - EdgeQL text survives a print / re-parse round trip.

Universe 1: spec/Syntax.tla enumerates expression shapes (every operator in
every child position of every other operator); each tree is written FULLY
PARENTHESISED, parsed by the real grammar, printed by the real code
generator (pretty and compact), re-parsed and compared: same syntax tree
(spans ignored), and printing the re-parsed tree gives byte-identical text.
Universe 2: the repository's own syntax corpus (tests/test_edgeql_syntax.py,
tests/test_schema_syntax.py: every snippet the parser accepts), every
statement of edb/lib, and the DDL / SDL texts of the SchemaDDL.tla universe,
through the same oracle with the entry point the text belongs to.
Universe 3: a feature matrix of constructs x options x adversarial
identifiers in every name position.
"""
from __future__ import annotations

import ast as pyast
import glob
import itertools
import json
import multiprocessing as mp
import os
import re

import lib

_S = {}


def S():
    if _S:
        return _S
    import boot
    from edb.edgeql import parser as qlparser, codegen as qlcodegen, ast as qlast
    from edb.edgeql.parser import grammar as qlgrammar
    from edb.common import ast as cast
    from edb import errors
    qlparser.preload_spec() if hasattr(qlparser, 'preload_spec') else None
    _S.update(boot=boot, qlparser=qlparser, gen=qlcodegen.generate_source,
              qlast=qlast, tokens=qlgrammar.tokens, cast=cast, errors=errors)
    return _S


# ------------------------------------------------------------------ oracle
def ast_diff(a, b, path='', depth=0):
    """first structural difference between two qlast trees, or None"""
    cast = _S['cast']
    if (a is None and b == []) or (b is None and a == []):
        return None      # "no bases" / "no commands" written two ways
    if type(a) is not type(b):
        return f'{path}: {type(a).__name__} vs {type(b).__name__}'
    if isinstance(a, cast.AST):
        for name, _ in cast.iter_fields(a, include_meta=False, exclude_unset=False):
            if name in ('span', 'context', 'system_comment'):
                continue
            x, y = getattr(a, name, None), getattr(b, name, None)
            if name == 'commands':
                x, y = _strip_using(a, x), _strip_using(b, y)
            d = ast_diff(x, y, f'{path}.{name}', depth + 1)
            if d:
                return d
        return None
    if isinstance(a, (list, tuple)):
        if path.endswith('.kinds') and len(a) == len(b):
            a, b = sorted(a, key=str), sorted(b, key=str)
        if len(a) != len(b):
            return f'{path}: {len(a)} vs {len(b)} items'
        for i, (x, y) in enumerate(zip(a, b)):
            d = ast_diff(x, y, f'{path}[{i}]', depth + 1)
            if d:
                return d
        return None
    if isinstance(a, dict):
        if set(a) != set(b):
            return f'{path}: keys {sorted(map(str, a))} vs {sorted(map(str, b))}'
        for k in a:
            d = ast_diff(a[k], b[k], f'{path}[{k!r}]', depth + 1)
            if d:
                return d
        return None
    if a != b:
        if path.endswith('.body.text') and isinstance(a, str) and isinstance(b, str) \
                and a.split() == b.split():
            return None
        return f'{path}: {a!r} vs {b!r}'
    return None


def _strip_using(node, commands):
    """`p { using (E) }` and `p := (E)` are one clause: the long form keeps
    E both as .target and as a SetField('expr') command (the same object)."""
    tgt = getattr(node, 'target', None)
    if tgt is None or not isinstance(commands, list):
        return commands
    qlast = _S['qlast']
    return [c for c in commands
            if not (isinstance(c, qlast.SetField) and c.name == 'expr'
                    and c.special_syntax and c.value is tgt)]


ENTRY = {}


def parse(entry, text):
    st = S()
    qp = st['qlparser']
    if entry == 'fragment':
        return qp.parse_fragment(text)
    if entry == 'block':
        return qp.parse_block(text)
    if entry == 'sdl':
        return qp.parse_sdl(text)
    raise ValueError(entry)


def gen(tree, entry, **kw):
    st = S()
    if isinstance(tree, list):
        return '\n'.join(st['gen'](t, **kw) + ';' for t in tree)
    if entry == 'sdl':
        return st['gen'](tree, sdlmode=True, unsorted=True, **{k: v for k, v in kw.items()})
    return st['gen'](tree, **kw)


def roundtrip(entry, text):
    """returns (verdict, detail): verdict in ok | rejected | VIOLATION"""
    st = S()
    try:
        t1 = parse(entry, text)
    except st['errors'].EdgeQLSyntaxError as e:
        return 'rejected', str(e)[:100]
    return roundtrip_tree(entry, t1)


def roundtrip_tree(entry, t1):
    st = S()
    for mode in (dict(pretty=True), dict(pretty=False)):
        try:
            text2 = gen(t1, entry, **mode)
        except Exception as e:
            return 'VIOLATION', (f'printing the parsed program fails ({mode}): '
                                 f'{type(e).__name__}: {str(e)[:160]}')
        try:
            t2 = parse(entry, text2)
        except st['errors'].EdgeQLSyntaxError as e:
            return 'VIOLATION', (f'printed text is rejected by the parser ({mode}): '
                                 f'{text2!r}: {str(e)[:120]}')
        d = ast_diff(t1, t2)
        if d:
            return 'VIOLATION', (f'printed text parses to a different program '
                                 f'({mode}): {text2!r}: {d}')
        text3 = gen(t2, entry, **mode)
        if text3 != text2:
            return 'VIOLATION', (f'printing is not idempotent ({mode}): '
                                 f'{text2!r} then {text3!r}')
    return 'ok', None


# ------------------------------------------------------------------ universe 1
def render(t):
    if t[0] == 'L':
        return t[1]
    op = t[0]
    a = render(t[1])
    if len(t) == 2:
        return {
            'NEG': f'(-{a})', 'POS': f'(+{a})', 'NOT': f'(NOT {a})',
            'EXISTS': f'(EXISTS {a})', 'DISTINCT': f'(DISTINCT {a})',
            'CAST': f'(<str>{a})', 'INDEX': f'({a})[1]', 'SLICE': f'({a})[1:2]',
            'PTR': f'({a}).foo', 'BACKPTR': f'({a}).<foo',
            'ISTYPE': f'({a} IS T)', 'ISNOTTYPE': f'({a} IS NOT T)',
            'TYPEINTERSECT': f'({a})[IS T]', 'DETACHED': f'(DETACHED {a})',
            'ARRAY': f'[{a}]', 'TUPLE1': f'({a},)', 'SET1': '{' + a + '}',
            'SHAPE': f'({a}) {{foo}}', 'FILTER': f'(SELECT {a} FILTER x)',
            'ORDER': f'(SELECT {a} ORDER BY x)', 'LIMIT': f'(SELECT {a} LIMIT 1)',
            'CALL': f'f({a})',
        }[op]
    b = render(t[2])
    if len(t) == 3:
        return f'({a} {op} {b})'
    c = render(t[3])
    return {'IFELSE': f'({a} IF {b} ELSE {c})', 'SLICE2': f'({a})[{b}:{c}]',
            'FOR': f'(FOR v IN {a} UNION ({b}, {c}))'}[op]


def parse_trees(output):
    out = []
    for line in output.splitlines():
        if line.startswith('"OUT '):
            out.append(lib.fast_parse_tla(line[5:-1].replace('\\"', '"')))
    return out


def _tree_job(trees):
    S()
    out = []
    nrej = 0
    for t in trees:
        text = 'SELECT ' + render(t)
        v, d = roundtrip('fragment', text)
        if v == 'rejected':
            nrej += 1
        elif v == 'VIOLATION':
            out.append(dict(kind='tree', text=text, what=d, ops=_ops(t)))
    return len(trees), nrej, out


def _ops(t):
    if t[0] == 'L':
        return []
    r = [t[0]]
    for c in t[1:]:
        r += _ops(c)
    return r


# ------------------------------------------------------------------ universe 2
def corpus():
    items = []
    for fn, entry in (('tests/test_edgeql_syntax.py', 'block'),
                      ('tests/test_schema_syntax.py', 'sdl')):
        src = open(os.path.join(lib.REPO, fn)).read()
        tree = pyast.parse(src)
        for cls in [n for n in tree.body if isinstance(n, pyast.ClassDef)]:
            for f in [n for n in cls.body if isinstance(n, pyast.FunctionDef)
                      and n.name.startswith('test_')]:
                doc = pyast.get_docstring(f, clean=False)
                if not doc:
                    continue
                decos = [pyast.unparse(d) for d in f.decorator_list]
                if any(x in d for d in decos
                       for x in ('must_fail', 'xfail', 'xerror', 'skip', 'not_implemented')):
                    continue
                text = doc.split('\n% OK %')[0]
                items.append((entry, text, f'{fn}::{f.name}'))
    for fn in sorted(glob.glob(os.path.join(lib.REPO, 'edb/lib/**/*.edgeql'),
                               recursive=True)):
        items.append(('block', open(fn).read(), os.path.relpath(fn, lib.REPO)))
    return items


def _corpus_job(items):
    st = S()
    out = []
    nrej = 0
    n = 0
    for entry, text, origin in items:
        try:
            t1 = parse(entry, text)
        except st['errors'].EdgeQLSyntaxError:
            nrej += 1
            n += 1
            continue
        except RecursionError:
            continue
        # a statement block is checked statement by statement, so that one
        # finding names one statement and not a whole file
        parts = [[t] for t in t1] if isinstance(t1, list) else [t1]
        for i, part in enumerate(parts):
            n += 1
            try:
                v, d = roundtrip_tree(entry, part)
            except RecursionError:
                continue
            if v == 'VIOLATION':
                try:
                    shown = gen(part, entry, pretty=False)
                except Exception:
                    shown = text
                out.append(dict(kind='corpus', origin=f'{origin}#{i}',
                                text=shown[:300] if len(parts) > 1 else text[:300],
                                source=text[:2000], entry=entry, index=i, what=d))
    return n, nrej, out


# ------------------------------------------------------------------ universe 3
IDENTS = ['a', 'A', 'select', 'Select', 'union', 'if', 'of', '01', '00', '1a',
          'a b', 'a`b', '__type__', 'é', '中', 'x-y', '9', 'SET', 'optional',
          'on', 'property', 'link', 'true', 'not', 'module']


def matrix():
    q = lambda s: '`' + s.replace('`', '``') + '`'   # noqa: E731
    out = []
    for i in IDENTS:
        n = q(i)
        out += [f'select {n}', f'select x.{n}', f'select x.<{n}', f'select x@{n}',
                f'select x {{ {n} := 1 }}', f'select x {{ {n}: {{ a }} }}',
                f'select {n}::{n}', f'with {n} := 1 select {n}',
                f'for {n} in x union {n}', f'select f({n} := 1)',
                f'select <{n}>1', f'select x[is {n}]', f'select (a := 1).{n}'
                if False else f'select x.{n}.{n}',
                f'insert {n} {{ {n} := 1 }}', f'update {n} set {{ {n} := 2 }}',
                f'select x.{n}']
    # splats: every combination of type qualifier / intersection / depth
    for stars in ('*', '**'):
        out += [f'select Foo {{ {stars} }}', f'select Foo {{ Bar.{stars} }}',
                f'select Foo {{ [is Baz].{stars} }}',
                f'select Foo {{ Bar[is Baz].{stars} }}',
                f'select Foo {{ m::Bar[is m::Baz].{stars} }}',
                f'select Foo {{ a, {stars}, b := 1 }}']
    # options of statements / DDL commands, pairwise
    out += [
        'select <required int64>$x', 'select <optional int64>$x',
        'select <array<int64>>$x', 'select + +1', 'select - -1', 'select -(-1)',
        'select +(-1)', 'select not not true', 'select 1 ++ +2',
        'select x order by .a asc empty first then .b desc empty last',
        'select x filter .a offset 1 limit 2',
        'select (x, y) = (1, 2)', 'select (a := 1, b := 2).a',
        'select x[1][2:3][:4][5:]', 'select x.0.1', 'select x.a.<b[is T].c@d',
        'with module m, a := 1, b as module c select a',
        'insert T { a := 1 } unless conflict',
        'insert T { a := 1 } unless conflict on .a',
        'insert T { a := 1 } unless conflict on (.a, .b) else (select T)',
        'update T filter .a set { b := 1, c += 2, d -= 3 }',
        'delete T filter .a order by .b offset 1 limit 1',
        'group T { a } using z := .a by z, .b',
        'group T by cube(.a, .b)', 'group T by rollup(.a, (.b, .c))',
        'select 1e100', 'select 1.0e-5', 'select 100n', 'select 1.5n',
        'select 0.0', 'select -0.0', "select b'\\x00\\xff\\\\'", "select r'a\\b'",
        "select $$a'b\"c$$", "select 'a\\nb'", 'select "a\'b"',
        'select <json>1', 'select <tuple<a: int64, b: str>>x',
        'select <array<tuple<int64, str>>>x', 'select <range<int64>>x',
        'select x is (A | B)', 'select x is (A & B)', 'select x[is A | B]',
        'select introspect A', 'select introspect typeof x',
        'select global g', 'select global m::g',
        'select detached x', 'select assert_single(x)',
        'select f(1, 2, a := 3)', 'select f(<optional int64>{})',
        'select x if y else z if w else v', 'select (x if y else z) if w else v',
        'select x ?? y ?? z', 'select (x ?? y) ?? z', 'select x ^ y ^ z',
        'select (x ^ y) ^ z', 'select x union y except z intersect w',
        'select (x union y) except (z intersect w)',
        'select -x ^ 2', 'select (-x) ^ 2', 'select -(x ^ 2)',
        'select not x = y', 'select (not x) = y', 'select x = (y = z)',
        'select (x = y) = z', 'select x in {1, 2}', 'select x not in y',
        'select (x in y) in z', 'select x like y', 'select x not ilike y',
        'select distinct x union y', 'select distinct (x union y)',
        'select exists x.y', 'select (exists x).y' if False else 'select exists (x).y',
        'select <int64><str>x', 'select <int64>(<str>x)', 'select <int64>x + 1',
        'select <int64>(x + 1)', 'select (<int64>x)[0]', 'select <int64>x[0]',
        'select x.a[0].b', 'select (x.a)[0]', 'select (x)[is T].a',
        'select (select x).a', 'select (select x filter .a).b',
        'select (x, )', 'select (x, y)', 'select (x,).0',
        'select [x, y]', 'select {x, y}', 'select {}', 'select <int64>{}',
        'select [1][0]', 'select ([1])[0]', 'select ((1, 2)).0',
        'for x in {1, 2} union (x + 1)', 'for x in (select y) union x',
        'for optional x in y union x',
        'select (for x in y union x)', 'select (with a := 1 select a)',
        'with a := (with b := 1 select b) select a',
    ]
    ddl = [
        'create type T { create required multi property a -> str { create constraint exclusive; set default := "x"; set readonly := true; }; }',
        'create type T extending A, B { create link l -> T { on target delete allow; on source delete delete target; create property lp -> str; }; }',
        'alter type T { alter property a { set required using ("x"); reset default; set type int64 using (<int64>.a); rename to b; }; }',
        'create abstract constraint c(x: int64) on (len(<str>__subject__)) extending d { using (__subject__ < x); set errmessage := "e"; }',
        'create type T { create index on (.a) except (.b); create index fts::index on (.c); create constraint expression on (.a != "") except (.d) { set delegated := true } if False else 1; }'
        if False else 'create type T { create index on (.a) except (.b); create constraint exclusive on (.a) except (.d); }',
        'create function f(a: int64, named only b: optional str = "x", variadic c: int64) -> set of str { set volatility := "Stable"; create annotation title := "t"; using (select "x") }',
        'create function f(a: optional int64) -> optional array<int64> using sql $$select 1$$',
        'create alias A := (select T { a, b := .c })', 'create global g -> int64 { set default := 1 }',
        'create required multi global g := (select T)',
        'create type T { create access policy p when (true) allow select, update read using (.a) { set errmessage := "no" }; }',
        'create type T { create access policy p deny all using (true); }',
        'create type T { create trigger t after insert, update for each when (true) do (select 1); }',
        'create type T { create property a -> str { create rewrite insert, update using (.b) }; }',
        'create scalar type S extending enum<A, B, C>', 'create scalar type S extending int64 { create constraint min_value(0); }',
        'create module a::b if not exists', 'create future simple_scoping', 'create extension e version "1.0"',
        'start migration to { module default { type A { required a: str; multi link b: A; } } }',
        'create migration m1 onto initial { create type A; }',
        'start transaction isolation serializable, read only, deferrable',
        'configure session set a := 1', 'configure current database reset a',
        'configure instance insert cfg::Auth { priority := 1, method := (insert cfg::Trust) }',
        'configure instance reset cfg::Auth filter .priority = 1',
        'describe schema as sdl', 'describe type T as text verbose', 'describe current migration as json',
        'alter type T { create link l := (.a) ; alter link l { using (.b); reset cardinality; set multi; }; }',
        'alter type T { extending A last; extending B before C; drop extending D; }',
        'create type T { create overloaded required link l extending k -> U; }',
        'drop type T', 'alter type T rename to U', 'create pseudo type `anytype`' if False else 'create type `type`',
    ]
    return [('fragment' if not t.split()[0] in ('create', 'alter', 'drop', 'start', 'configure', 'describe', 'insert', 'update', 'delete', 'group', 'for', 'with') else 'block', t) for t in out] \
        + [('block', t) for t in ddl]


def _matrix_job(items):
    S()
    out = []
    nrej = 0
    for entry, text in items:
        v, d = roundtrip('block', text + ';') if entry == 'block' else roundtrip(entry, text)
        if v == 'rejected':
            nrej += 1
        elif v == 'VIOLATION':
            out.append(dict(kind='matrix', text=text, what=d))
    return len(items), nrej, out


def schema_texts(seed, quick):
    import schema_props as SP
    import schema_common as SC
    import c05 as H
    r = lib.run_tlc('SchemaDDL', 'SchemaDDL_2.cfg', timeout=1800, deadlock=False)
    by, maximal = H.behaviours(H.parse_rows(r.output))
    items = []
    seen = set()
    for h, (sch, _) in by.items():
        sdl = SC.render_sdl(sch)
        if sdl not in seen:
            seen.add(sdl)
            items.append(('sdl', sdl, 'SchemaDDL universe'))
        if h:
            pre = by.get(h[:-1])
            if pre:
                ddl = SC.render_ddl(h[-1], pre[0])
                if ddl not in seen:
                    seen.add(ddl)
                    items.append(('block', ddl + ';', 'SchemaDDL universe'))
    return items[:400 if quick else 100000]


UNARY = {'NOT', 'NEG', 'POS', 'EXISTS', 'DISTINCT', 'DETACHED'}


def key_of(v):
    """class of the failure (so that one printing defect is one finding)"""
    w = v['what']
    if 'Shape vs TypeCast' in w:
        return 'class:type-cast-not-parenthesised-as-shape-subject'
    if v['kind'] == 'corpus' and re.search(
            r'create extension package|create (applied )?migration', w, re.I) \
            and re.search(r"\.(value|text): '", w):
        return 'class:multi-line-string-inside-a-verbatim-block-is-reindented'
    if v['kind'] == 'tree':
        ops = v['ops']
        kids = set(ops[1:])
        if kids & UNARY:
            return ('class:prefix-operator-not-parenthesised-as-operand:'
                    + ('rejected' if 'rejected' in w else 'reparsed-differently'))
        return 'tree:' + '>'.join(ops) + ':' + w[:40]
    t = v['text']
    if re.search(r'`(union|except|intersect)`', t, re.I):
        return 'class:partial-reserved-keyword-printed-bare'
    digs = re.findall(r'`(\d+)`', t)
    if digs and all(re.fullmatch(r'[1-9]\d*|0', d) for d in digs) \
            and not re.search(r'x\.`\d+`', t):
        # canonical integers only; names with leading zeros, and plain path
        # steps, print correctly on the unchanged tree and are NOT this class
        return 'class:all-digit-name-printed-bare-where-a-number-is-not-allowed'
    if re.match(r'select [+-] ?[+-]', t) or '(-x) ^' in t or '(not x) =' in t:
        return ('class:prefix-operator-not-parenthesised-as-operand:'
                + ('rejected' if 'rejected' in w else 'reparsed-differently'))
    if v['kind'] == 'corpus' and re.search(r'create extension package|create (applied )?migration', t, re.I) \
            and 'Constant' not in w and re.search(r"\.value: '", w):
        return 'class:multi-line-string-inside-a-verbatim-block-is-reindented'
    if 'Shape vs TypeCast' in w:
        return 'class:type-cast-not-parenthesised-as-shape-subject'
    if re.search(r"for \w+ in [-+]", w, re.I) or re.search(r'\((NOT|-|\+|EXISTS|DISTINCT) ?\(?', w) and 'UnaryOp' in w:
        return ('class:prefix-operator-not-parenthesised-as-operand:'
                + ('rejected' if 'rejected' in w else 'reparsed-differently'))
    if '.parent: NoneType vs ObjectRef' in w:
        return 'class:create-migration-prints-explicit-onto-initial'
    if 'Shape vs Path' in w:
        return 'class:empty-shape-not-printed'
    if 'create global' in t.lower() and 'commands' in w:
        return 'class:global-using-command-printed-as-short-form'
    return f"{v['kind']}:{v.get('origin', '')}:{t[:120]}"


def report(rep, out):
    for v in out:
        rep.violation(key_of(v), f"{v['text'][:200]!r}: {v['what'][:400]}", v)


def replay(path, rep):
    d = json.load(open(path))['replay']
    S()
    print(roundtrip('block' if d['kind'] != 'tree' else 'fragment', d['text']))


def run(tier, seed, rep):
    quick = tier == 'quick'
    S()
    r = lib.run_tlc('Syntax', 'Syntax_2.cfg', timeout=3000, deadlock=False)
    if r.violated:
        raise lib.MachineryError(f'Syntax: {r.violated}')
    trees = parse_trees(r.output)
    if not quick:
        r3 = lib.run_tlc('Syntax', 'Syntax_3.cfg', timeout=6000, deadlock=False,
                         heap='24g')
        trees += parse_trees(r3.output)
    ntree = nrej = 0
    ncorp = nmat = 0
    with mp.Pool(lib.NCPU) as pool:
        chunks = [trees[i::lib.NCPU * 4] for i in range(lib.NCPU * 4)]
        for c, rj, out in pool.imap_unordered(_tree_job, [ch for ch in chunks if ch]):
            ntree += c
            nrej += rj
            report(rep, out)
        items = corpus() + schema_texts(seed, quick)
        chunks = [items[i::lib.NCPU * 2] for i in range(lib.NCPU * 2)]
        crej = 0
        for c, rj, out in pool.imap_unordered(_corpus_job, [ch for ch in chunks if ch]):
            ncorp += c
            crej += rj
            report(rep, out)
        mat = matrix()
        chunks = [mat[i::lib.NCPU] for i in range(lib.NCPU)]
        mrej = 0
        for c, rj, out in pool.imap_unordered(_matrix_job, [ch for ch in chunks if ch]):
            nmat += c
            mrej += rj
            report(rep, out)
    cov = dict(states=r.distinct, transitions=r.generated,
               traces_validated_against_impl=ntree + ncorp + nmat,
               samples=[dict(tree=_ops(trees[1000]), text='SELECT ' + render(trees[1000]))],
               exhaustive=True, trees=ntree, trees_rejected_by_parser=nrej,
               corpus_texts=ncorp, corpus_rejected=crej,
               matrix_texts=nmat, matrix_rejected=mrej,
               evaluations=ntree + ncorp + nmat, distinct_nontrivial=ntree - nrej,
               rule='trees: every operator in every child position of every '
                    'other operator (depth 2; depth-3 chains thorough), written '
                    'fully parenthesised; corpus: upstream syntax tests, '
                    'edb/lib, DDL/SDL of the SchemaDDL universe; matrix: '
                    'constructs x options x adversarial identifiers; each text '
                    'printed pretty and compact')
    return dict(level='model_checking', coverage=cov, assumptions=[
        'parser = the repository grammar driven by the harness LR driver and '
        'tokenizer port (validated against the upstream syntax corpus)',
        'texts the parser rejects are outside the property', lib.SHIM_TRUST])
