"""./check --setup : build everything the checks need, offline, from disk."""
from __future__ import annotations

import glob
import os
import sys
import time

import lib


def main():
    t0 = time.time()
    print(f'[setup] caching arena allocator: {"installed" if lib.install_fastarena() else "unavailable (checks run slower)"}', flush=True)
    # 1. every TLA+ module parses
    mods = sorted(glob.glob(os.path.join(lib.SPEC, '*.tla')))
    for m in mods:
        lib.sany(os.path.basename(m))
    print(f'[setup] SANY ok on {len(mods)} modules ({time.time()-t0:.0f}s)',
          flush=True)
    # 2. native shim + caches (std schema, reflection schema, compiler)
    import boot
    boot.compiler()
    print(f'[setup] shim boot + std/refl cache ok ({time.time()-t0:.0f}s)',
          flush=True)
    # 3. shim self-validation against the upstream syntax corpus
    try:
        import shimcheck
    except ImportError:
        shimcheck = None
    if shimcheck is not None:
        shimcheck.main(strict=True)
        print(f'[setup] shim corpus cross-check ok ({time.time()-t0:.0f}s)',
              flush=True)
    return 0
