"""C13 - generated SQL is well-scoped, parameter-consistent and deterministic.

Scoping: spec/SqlScope.tla states PostgreSQL's name-resolution rules as a
state machine over a linearised SQL tree.  Every query of the universes
below is compiled by the real compiler; its pgast tree is walked in the order
PostgreSQL analyses it and written as an event trace; TLC validates the
traces (a trace it cannot extend is a reference PostgreSQL would reject).
Parameters: every $N in the tree must be an index of the argument map the
compiler reports, distinct logical arguments must have distinct indexes, the
indexes are 1..n without holes, and one $N is never cast to two types.
Determinism: every query is compiled twice in one process (fresh contexts)
and again in a second process with a different hash seed; SQL text and
descriptors must be byte-identical.

Universes: the DML-nesting scripts of Caps.tla, the terms and shapes of
EdgeQLSem.tla (level 1), the access-path queries of Policies.tla under some
policy configurations, and a list of parameter / global queries.
"""
from __future__ import annotations

import collections
import hashlib
import json
import multiprocessing as mp
import os
import random
import subprocess
import sys

import lib

_S = {}


def S():
    if _S:
        return _S
    import boot
    from edb.pgsql import ast as pgast, compiler as pgcompiler, codegen as pgcodegen
    from edb.common import ast as cast
    from edb.edgeql import compiler as qlcompiler, parser as qlparser
    from edb import errors
    boot.compiler()
    _S.update(boot=boot, pgast=pgast, pgcompiler=pgcompiler, pgcodegen=pgcodegen,
              cast=cast, qlcompiler=qlcompiler, qlparser=qlparser, errors=errors)
    return _S


# ------------------------------------------------------------- lineariser
class Lin:
    """pgast tree -> SqlScope event list (+ parameter uses)"""

    def __init__(self):
        self.ev = []
        self.params = collections.defaultdict(set)   # $N -> cast type names
        self.unknown = set()

    # -- helpers
    def outcols(self, q):
        pgast = _S['pgast']
        if isinstance(q, pgast.CommonTableExpr):
            if q.aliascolnames:
                return list(q.aliascolnames)
            return self.outcols(q.query)
        if isinstance(q, pgast.SelectStmt) and q.op:
            return self.outcols(q.larg)
        if isinstance(q, pgast.SelectStmt) and q.values:
            return ['*']
        tl = getattr(q, 'target_list', None)
        if tl is None:
            return ['*']
        cols = []
        for rt in tl:
            nm = getattr(rt, 'name', None)
            val = getattr(rt, 'val', rt)
            if nm:
                cols.append(nm)
            elif isinstance(val, pgast.ColumnRef):
                last = val.name[-1]
                cols.append(last if isinstance(last, str) else '*')
            else:
                cols.append('*')
        return cols or ['*']

    def alias_of(self, rv, default=None):
        a = getattr(rv, 'alias', None)
        if a is not None and a.aliasname:
            return a.aliasname, a.colnames
        return default, None

    # -- queries
    def query(self, q, kind):
        pgast = _S['pgast']
        self.ev.append(dict(e='push', k=kind))
        for cte in (q.ctes or []):
            self.query(cte.query, 'cte')
            self.ev.append(dict(e='cte', a=cte.name))
        if isinstance(q, pgast.SelectStmt):
            if q.op:
                self.query(q.larg, 'arm')
                self.query(q.rarg, 'arm')
            else:
                self.expr(q.values)
                for j, item in enumerate(q.from_clause or [], 1):
                    self.from_item(item, j)
                self.expr(q.target_list)
                self.expr(q.distinct_clause)
                self.expr(q.where_clause)
                self.expr(q.group_clause)
                self.expr(q.having_clause)
                self.expr(q.window_clause)
            self.expr(q.sort_clause)
            self.expr(q.limit_offset)
            self.expr(q.limit_count)
        elif isinstance(q, pgast.InsertStmt):
            self.target_rel(q.relation)
            if q.select_stmt is not None:
                self.query(q.select_stmt, 'nonlateral')
            if q.on_conflict is not None:
                self.ev.append(dict(e='rvar', a='excluded', cols=['*'], j=0))
                self.expr(q.on_conflict)
            self.expr(q.returning_list)
        elif isinstance(q, pgast.UpdateStmt):
            self.target_rel(q.relation)
            for j, item in enumerate(q.from_clause or [], 1):
                self.from_item(item, j)
            self.expr(q.targets)
            self.expr(q.where_clause)
            self.expr(q.returning_list)
        elif isinstance(q, pgast.DeleteStmt):
            self.target_rel(q.relation)
            for j, item in enumerate(q.using_clause or [], 1):
                self.from_item(item, j)
            self.expr(q.where_clause)
            self.expr(q.returning_list)
        elif isinstance(q, pgast.NullRelation):
            self.expr(q.where_clause)
            self.expr(q.target_list)
        else:
            self.unknown.add(type(q).__name__)
        self.ev.append(dict(e='pop'))

    def target_rel(self, rv):
        rel = rv.relation
        name, _ = self.alias_of(rv, getattr(rel, 'name', None))
        self.ev.append(dict(e='rvar', a=name or '?', cols=['*'], j=0))

    def from_item(self, item, j):
        pgast = _S['pgast']
        if isinstance(item, pgast.RelRangeVar):
            rel = item.relation
            if isinstance(rel, pgast.CommonTableExpr):
                self.ev.append(dict(e='ctename', a=rel.name))
                name, coln = self.alias_of(item, rel.name)
                cols = list(coln) if coln else self.outcols(rel)
            elif isinstance(rel, pgast.Query):
                self.query(rel, 'nonlateral')
                name, coln = self.alias_of(item, None)
                cols = list(coln) if coln else self.outcols(rel)
            else:
                name, coln = self.alias_of(item, getattr(rel, 'name', None))
                cols = ['*']
            self.ev.append(dict(e='rvar', a=name or '?', cols=cols, j=j))
        elif isinstance(item, pgast.RangeSubselect):
            self.query(item.subquery, 'lateral' if item.lateral else 'nonlateral')
            name, coln = self.alias_of(item, None)
            cols = list(coln) if coln else self.outcols(item.subquery)
            self.ev.append(dict(e='rvar', a=name or '?', cols=cols, j=j))
        elif isinstance(item, pgast.RangeFunction):
            # arguments of a function in FROM see the items to its left
            self.expr(item.functions)
            name, coln = self.alias_of(item, None)
            self.ev.append(dict(e='rvar', a=name or '?', cols=['*'], j=j))
        elif isinstance(item, pgast.JoinExpr):
            self.from_item(item.larg, j)
            for jc in item.joins:
                self.from_item(jc.rarg, j)
                self.expr(jc.quals, j)
                self.expr(jc.using_clause, j)
        elif isinstance(item, pgast.JoinClause):
            self.from_item(item.rarg, j)
            self.expr(item.quals, j)
        elif isinstance(item, pgast.IntersectionRangeVar):
            for c in item.component_rvars:
                self.from_item(c, j)
        elif item is None:
            pass
        else:
            self.unknown.add(type(item).__name__)

    # -- expressions
    def expr(self, node, j=0, cast_type=None):
        pgast, cast = _S['pgast'], _S['cast']
        if node is None or isinstance(node, (str, int, float, bool, bytes)):
            return
        if isinstance(node, (list, tuple)):
            for x in node:
                self.expr(x, j)
            return
        if isinstance(node, dict):
            for x in node.values():
                self.expr(x, j)
            return
        if isinstance(node, pgast.Query):
            self.query(node, 'sublink')
            return
        if isinstance(node, pgast.SubLink):
            self.expr(node.test_expr, j)
            self.expr(node.expr, j)
            return
        if isinstance(node, pgast.ColumnRef):
            nm = node.name
            if len(nm) == 2 and isinstance(nm[0], str):
                col = nm[1] if isinstance(nm[1], str) else '*'
                self.ev.append(dict(e='ref', a=nm[0], c=col, j=j))
            return
        if isinstance(node, pgast.ParamRef):
            self.params[node.number].add(cast_type or '?')
            return
        if isinstance(node, pgast.TypeCast):
            tn = node.type_name
            tname = '.'.join(str(x) for x in tn.name) + ('[]' if tn.array_bounds else '')
            self.expr(node.arg, j, cast_type=tname)
            return
        if isinstance(node, (pgast.BaseRangeVar, pgast.CommonTableExpr, pgast.Relation)):
            # range variables only make sense in FROM; seeing one here
            # means the walk left the printed tree
            return
        if isinstance(node, cast.AST):
            for name, _ in cast.iter_fields(node, include_meta=False, exclude_unset=True):
                if name in ('span', 'typeref', 'ser_safe', 'nullable', 'is_packed_multi'):
                    continue
                self.expr(getattr(node, name, None), j)


def linearise(tree):
    lin = Lin()
    lin.query(tree, 'top')
    # the first push is the top frame itself: the spec starts with it
    ev = lin.ev[1:-1]
    return ev, lin


# ---------------------------------------------------------------- universes
PARAM_QUERIES = [
    'select <str>$0 ++ <str>$1',
    'select <str>$a ++ <str>$b ++ <str>$a',
    'select (<optional int64>$x ?? 0) + <int64>$y',
    'select (<tuple<str, int64>>$t).0 ++ <str>$s',
    'select <array<int64>>$arr ++ [<int64>$one]',
    'select (<array<tuple<str, int64>>>$at, <str>$z)',
    'select T filter .n = <str>$0 and .n != <str>$1',
    'insert T { n := <str>$name }',
    'update T filter .n = <str>$old set { n := <str>$new }',
    'for x in {<int64>$a, <int64>$b} union (x + <int64>$c)',
    'select (global g_plain, <str>$0)',
    'select (global g_default, global g_plain, <str>$0)',
    'select (global g_default, global g_opt, global g_plain)',
    'select (global g_opt, global g_default, global g_default2, <int64>$n)',
    'select T { n, k := global g_default ++ <str>$p } filter .n = global g_plain',
    'with a := <str>$0, b := global g_default select (a, b, <optional str>$1)',
    'select (for i in {1, 2} union (select T filter .n = <str>$q limit <int64>$lim))',
]
DML_SCHEMA_EXTRA = [
    'create type P { create property title -> str; create link author -> U; '
    'create multi link editors -> U; create link t -> T; }',
]
DML_SHAPES = [
    'select (insert P { title := "a", author := (insert U { name := "b" }) }) { title, author: { name } }',
    'select (insert P { title := "a", editors := (select U filter .name = "x") }) { editors: { name } }',
    'select (insert P { title := "a", editors := {(insert U { name := "e1" }), (insert U { name := "e2" })} }) '
    '{ editors: { name } }',
    'select (update P filter .title = "k" set { author := (insert U { name := "new" }) }) '
    '{ title, author: { name } }',
    'select (update P filter .title = "k" set { editors += (insert U { name := "new" }) }) '
    '{ editors: { name } }',
    'with u := (insert U { name := "i" }) select P { title, author: { name }, editors: { name } }',
    'with u := (insert U { name := "p" }), b := (update P filter .title = "q" set { author := u }) '
    'select b { title, author: { name } }',
    'select (for i in {"a", "b"} union (insert P { title := i, author := (insert U { name := i ++ "x" }) })) '
    '{ title, author: { name } }',
    'with x := (insert U { name := "u" }) select (x { name }, (select P { author: { name } }))',
    'select (insert P { title := "a", author := (insert U { name := "b" }) }).author.name',
    'select count((update P set { author := (insert U { name := "c" }) }).author)',
    'select (update T filter .n = "k" set { n := "z" }) { n, ml: { n }, l: { n } }',
    'with x := (insert T { n := "i" }) select T { n, l: { n }, ml: { n } }',
    'with a := (insert T { n := "p" }), b := (update T filter .n = "q" set { l := a }) '
    'select b { n, l: { n, ml: { n } } }',
    'select (delete T filter .n = "d") { n, l: { n } }',
    'select (delete P filter .title = "d") { author: { name } }',
    'select (insert P { title := "t", t := (insert T { n := "tt" }) }) { t: { n, l: { n } } }',
]
PARAM_SCHEMA_EXTRA = [
    'create required global g_plain -> str { set default := "p" }' if False else
    'create global g_plain -> str',
    'create global g_opt -> int64',
    'create global g_default -> str { set default := "d" }',
    'create global g_default2 -> int64 { set default := 7 }',
]


def universe(quick, seed):
    """-> list of (schema_key, text); schemas are built lazily per worker"""
    import c08
    import c07
    import sem_common as SEM
    rnd = random.Random(seed)
    items = []
    # 1. DML nesting (Caps.tla)
    r = lib.run_tlc('Caps', 'Caps.cfg', timeout=600, deadlock=False)
    seen = set()
    for script, _caps in c08.parse_out(r.output):
        for s in script:
            if s['kind'] in ('query', 'set_global'):
                _, text = c08.render(s)
                if text not in seen:
                    seen.add(text)
                    items.append(('caps', text))
    # 2. EdgeQLSem level 1
    r2 = lib.run_tlc('EdgeQLSem', 'EdgeQLSem_1.cfg', timeout=900, deadlock=False, heap='8g')
    outs, _, _ = SEM.parse_output(r2.output)
    sem = []
    for term, _ty, _sz, _dup, _ref in outs:
        try:
            sem.append(('sem', SEM.query_text(term)))
        except ValueError:
            pass
    if quick:
        rnd.shuffle(sem)
        sem = sem[:500]
    items += sem
    # 3. policies
    cfgs = [[dict(ty='Mid', kind='allow_select')],
            [dict(ty='Base', kind='deny_select'), dict(ty='Leaf', kind='allow_all')],
            [dict(ty='Holder', kind='uses_global'), dict(ty='Mid', kind='allow_all')],
            [dict(ty='Owned', kind='allow_select'), dict(ty='Holder', kind='allow_select')]]
    for i, cfg in enumerate(cfgs):
        for text in c07.QUERIES.values():
            items.append((f'pol{i}', text))
    # 3b. shapes over the result of DML (links into types the statement wrote)
    for text in DML_SHAPES:
        items.append(('dml', text))
    # 4. parameters and globals
    for text in PARAM_QUERIES:
        items.append(('params', text))
    return items, (r.distinct + r2.distinct, r.generated + r2.generated), cfgs


_SCHEMAS = {}


def schema_for(key, cfgs):
    if key in _SCHEMAS:
        return _SCHEMAS[key]
    st = S()
    if key in ('caps', 'params', 'dml'):
        import c08
        from edb.server.compiler import compiler as C
        from edb import edgeql
        ctx = st['boot'].new_ctx()
        stmts = list(c08.SCHEMA) + (PARAM_SCHEMA_EXTRA if key == 'params' else []) \
            + (DML_SCHEMA_EXTRA if key == 'dml' else [])
        for q in stmts:
            C.compile(ctx=ctx, source=edgeql.Source.from_string(q))
        user = ctx.state.current_tx().get_user_schema()
        full = ctx.state.current_tx().get_schema(st['boot'].std_schema())
    elif key == 'sem':
        import sem_common as SEM
        s = SEM.S()
        user, full = s['user_schema'], s['schema']
    elif key.startswith('pol'):
        import c07
        c07.S()
        full = c07.build_schema(cfgs[int(key[3:])])
        user = None
    _SCHEMAS[key] = (user, full)
    return _SCHEMAS[key]


def compile_one(key, text, cfgs):
    """-> dict(status, events, problems, sql, digest)"""
    st = S()
    user, full = schema_for(key, cfgs)
    qlc = st['qlcompiler']
    res = dict(key=key, text=text, problems=[])
    try:
        out = []
        for _ in range(2):
            ir = qlc.compile_ast_to_ir(
                st['qlparser'].parse_query(text), full,
                options=qlc.CompilerOptions(modaliases={None: 'default'}))
            sql_res = st['pgcompiler'].compile_ir_to_sql_tree(
                ir, output_format=st['pgcompiler'].OutputFormat.NATIVE)
            sql = st['pgcodegen'].generate_source(sql_res.ast, pretty=False)
            out.append((sql, sql_res))
    except st['errors'].EdgeDBError as e:
        res['status'] = 'rejected'
        return res
    res['status'] = 'ok'
    (sql1, r1), (sql2, r2) = out
    if sql1 != sql2:
        res['problems'].append(('determinism', 'compiling the same query twice in '
                                'one process gives different SQL text'))
    res['digest'] = hashlib.sha256(sql1.encode()).hexdigest()
    events, lin = linearise(r1.ast)
    res['events'] = events
    if lin.unknown:
        res['unknown'] = sorted(lin.unknown)
    # parameters
    argmap = r1.argmap or {}
    idx = {}
    # a tuple-typed parameter is sent decoded: the outer name is not an
    # argument of its own (it shares the slot of its first component)
    outer = {p.name for p in ir.params if p.sub_params}
    for name, p in argmap.items():
        if name in outer:
            continue
        idx.setdefault(p.index, []).append(name)
    for i, names in idx.items():
        if len(names) > 1:
            res['problems'].append(('params', f'arguments {sorted(names)} share the '
                                              f'SQL parameter ${i}'))
    if idx and sorted(idx) != list(range(1, len(idx) + 1)):
        res['problems'].append(('params', f'argument map indexes {sorted(idx)} are '
                                          f'not 1..{len(idx)}'))
    for n, types in lin.params.items():
        if n not in idx:
            res['problems'].append(('params', f'the SQL uses ${n}, which the argument '
                                              f'map {sorted(idx)} does not contain'))
        real = {t for t in types if t != '?'}
        if len(real) > 1:
            res['problems'].append(('params', f'${n} is cast to different types '
                                              f'{sorted(real)}'))
    for name, p in argmap.items():
        if False and getattr(p, 'used', True) and p.index not in lin.params:
            # a declared-and-used argument that never appears is inconsistent
            res['problems'].append(('params', f'argument {name!r} is mapped to '
                                              f'${p.index} and marked used, but the '
                                              f'SQL never refers to it'))
    res['sql'] = sql1
    return res


def _job(args):
    items, cfgs = args
    S()
    out = []
    for key, text in items:
        try:
            r = compile_one(key, text, cfgs)
        except RecursionError:
            continue
        r.pop('sql', None)
        out.append(r)
    return out


# ---------------------------------------------------------------- TLC side
def validate(batches):
    """batches: list of lists of event lists -> per trace verdict"""
    verdicts = []
    procs = []
    d = lib.scratch('c13-')
    for bi, traces in enumerate(batches):
        path = os.path.join(d, f'traces{bi}.json')
        with open(path, 'w') as f:
            json.dump(traces, f)
        procs.append((bi, path))
    results = {}
    import concurrent.futures as cf

    def run(bi, path):
        r = lib.run_tlc('SqlScope', 'SqlScope.cfg', workers=2, timeout=1800,
                        env={'TRACE_FILE': path}, deadlock=False, heap='3g')
        return bi, r
    with cf.ThreadPoolExecutor(max_workers=max(1, lib.NCPU // 2)) as ex:
        for bi, r in ex.map(lambda a: run(*a), procs):
            results[bi] = r
    tot_states = 0
    for bi, traces in enumerate(batches):
        r = results[bi]
        tot_states += r.distinct
        acc, rej = set(), {}
        for line in r.output.splitlines():
            if line.startswith('"ACCEPT '):
                t, depth = lib.fast_parse_tla(line[8:-1])
                acc.add(t)
            elif line.startswith('"REJECT '):
                t, l = lib.fast_parse_tla(line[8:-1])
                rej[t] = l
        if r.violated:
            raise lib.MachineryError(f'SqlScope batch {bi}: {r.violated}\n{r.output[-1500:]}')
        for i in range(1, len(traces) + 1):
            if i in rej:
                verdicts.append(('reject', rej[i]))
            elif i in acc:
                verdicts.append(('accept', None))
            else:
                raise lib.MachineryError(f'SqlScope batch {bi}: no verdict for trace {i}\n'
                                         f'{r.output[-800:]}')
    return verdicts, tot_states


def negative_controls(traces):
    out = []
    for ev in traces:
        refs = {(e['a']) for e in ev if e['e'] == 'ref'}
        # 1. a referenced range variable is never entered
        for i, e in enumerate(ev):
            if e['e'] == 'rvar' and e['a'] in refs and e['cols'] != ['*'] \
                    and sum(1 for x in ev if x['e'] == 'rvar' and x['a'] == e['a']) == 1:
                out.append(('missing range variable', ev[:i] + ev[i + 1:]))
                break
        if len(out) >= 1:
            break
    for ev in traces:
        # 2. a LATERAL sub-select that refers to a left sibling loses LATERAL
        depth = 0
        for i, e in enumerate(ev):
            if e['e'] == 'push' and e['k'] == 'lateral':
                # find a ref inside this frame to an alias entered before i
                before = {x['a'] for x in ev[:i] if x['e'] == 'rvar'}
                d, j = 1, i + 1
                inner = set()
                hit = False
                while j < len(ev) and d > 0:
                    x = ev[j]
                    if x['e'] == 'push':
                        d += 1
                    elif x['e'] == 'pop':
                        d -= 1
                    elif x['e'] == 'rvar':
                        inner.add(x['a'])
                    elif x['e'] == 'ref' and x['a'] in before and x['a'] not in inner:
                        hit = True
                    j += 1
                if hit:
                    ev2 = list(ev)
                    ev2[i] = dict(e='push', k='nonlateral')
                    out.append(('LATERAL removed', ev2))
                    break
        if len(out) >= 2:
            break
    for ev in traces:
        # 3. a column the sub-select does not produce
        known = {e['a']: e['cols'] for e in ev if e['e'] == 'rvar' and '*' not in e['cols']}
        for i, e in enumerate(ev):
            if e['e'] == 'ref' and e['a'] in known and e['c'] != '*':
                ev2 = list(ev)
                ev2[i] = dict(e, c='no_such_column~0')
                out.append(('unknown column', ev2))
                break
        if len(out) >= 3:
            break
    if len(out) < 3:
        raise lib.MachineryError('could not build the negative controls for SqlScope')
    return out


def cross_process_digests(items, cfgs, hashseed):
    """compile in a second interpreter with another hash seed, against the
    SAME schemas (pickled here, loaded there)"""
    import pickle
    d = lib.scratch('c13x-')
    spath = os.path.join(d, 'schemas.pickle')
    keys = sorted({k for k, _ in items})
    with open(spath, 'wb') as f:
        pickle.dump({k: schema_for(k, cfgs)[1].get_top_schema() for k in keys}, f, -1)
    code = (
        'import sys, json, pickle; sys.path.insert(0, %r); sys.path.insert(0, %r)\n'
        'import lib; lib.install_fastarena()\n'
        'import c13\n'
        'st = c13.S()\n'
        'from edb.schema import schema as s_schema\n'
        'std = st["boot"].std_schema()\n'
        'for k, top in pickle.load(open(%r, "rb")).items():\n'
        '    c13._SCHEMAS[k] = (top, s_schema.ChainedSchema(std, top, s_schema.EMPTY_SCHEMA))\n'
        'items, cfgs = json.load(sys.stdin)\n'
        'out = []\n'
        'for key, text in items:\n'
        '    r = c13.compile_one(key, text, cfgs)\n'
        '    out.append(r.get("digest"))\n'
        'print("DIGESTS " + json.dumps(out))\n'
    ) % (os.path.join(lib.VERIF, 'shim'), os.path.join(lib.VERIF, 'harness'), spath)
    env = dict(os.environ, PYTHONHASHSEED=str(hashseed))
    p = subprocess.run([sys.executable, '-c', code], input=json.dumps([items, cfgs]),
                       capture_output=True, text=True, env=env, timeout=3000)
    for line in p.stdout.splitlines():
        if line.startswith('DIGESTS '):
            return json.loads(line[8:])
    raise lib.MachineryError('second-process compile failed: ' + p.stderr[-600:])


def replay(path, rep):
    d = json.load(open(path))['replay']
    print(json.dumps({k: d[k] for k in d if k != 'events'}, indent=1)[:3000])


def run(tier, seed, rep):
    quick = tier == 'quick'
    S()
    items, (nst, ntr), cfgs = universe(quick, seed)
    # build every schema here, before forking: the workers and the second
    # process must compile against the very same schema objects
    for k in sorted({k for k, _ in items}):
        schema_for(k, cfgs)
    results = []
    with mp.Pool(lib.NCPU) as pool:
        chunks = [items[i::lib.NCPU * 3] for i in range(lib.NCPU * 3)]
        for out in pool.imap_unordered(_job, [(c, cfgs) for c in chunks if c]):
            results += out
    ok = [r for r in results if r['status'] == 'ok']
    nrej = sum(1 for r in results if r['status'] == 'rejected')
    unknown = sorted({u for r in ok for u in r.get('unknown', [])})
    if unknown:
        raise lib.MachineryError(f'SQL tree nodes the lineariser does not know: {unknown}')
    # scoping: TLC validates the traces
    B = 150
    batches = [[r['events'] for r in ok[i:i + B]] for i in range(0, len(ok), B)]
    verdicts, tlc_states = validate(batches)
    # negative control (the specification must be able to say no): drop the
    # first FROM item that is referenced later, make a sub-select lose its
    # LATERAL, and reference a column the sub-select does not have
    controls = negative_controls([r['events'] for r in ok])
    cv, _ = validate([[c for _, c in controls]])
    for (kind, _), (v, _at) in zip(controls, cv):
        if v != 'reject':
            raise lib.MachineryError(f'SqlScope accepted a corrupted trace ({kind})')
    nev = 0
    for r, (v, at) in zip(ok, verdicts):
        nev += len(r['events'])
        if v == 'reject':
            ev = r['events'][at - 1] if at - 1 < len(r['events']) else {}
            what = {'ref': f"reference to {ev.get('a')}.{ev.get('c')} which is not in scope "
                           f"at that point",
                    'ctename': f"FROM names the CTE {ev.get('a')} which is not defined there",
                    'rvar': f"range variable {ev.get('a')} entered twice at one query level",
                    'pop': 'unbalanced query levels'}.get(ev.get('e'), str(ev))
            r['problems'].append(('scope', what + f' (event {at} of {len(r["events"])})'))
    # determinism across processes
    sample = [(r['key'], r['text']) for r in ok]
    if quick:
        rnd = random.Random(seed)
        rnd.shuffle(sample)
        sample = sample[:250]
    d2 = cross_process_digests(sample, cfgs, hashseed=seed % 1000 + 17)
    by = {(r['key'], r['text']): r for r in ok}
    for (key, text), dg in zip(sample, d2):
        if dg != by[(key, text)]['digest']:
            by[(key, text)]['problems'].append(
                ('determinism', 'a second process (different hash seed) compiles '
                                'the query to different SQL text'))
    for r in ok:
        if r['problems']:
            kinds = sorted({k for k, _ in r['problems']})
            r2 = {k: v for k, v in r.items() if k != 'events'}
            r2['events_tail'] = r['events'][-5:]
            rep.violation(f"{'+'.join(kinds)}:{r['key']}:{r['text']}",
                          f"`{r['text']}`: " + '; '.join(w for _, w in r['problems'][:2]), r2)
    cov = dict(states=nst + tlc_states, transitions=ntr,
               traces_validated_against_impl=len(ok),
               samples=[dict(query=ok[3]['text'], events=ok[3]['events'][:12])],
               queries=len(results), compiled=len(ok), rejected_by_compiler=nrej,
               scope_events=nev, tlc_trace_states=tlc_states,
               cross_process_compiles=len(sample),
               by_universe=dict(collections.Counter(r['key'][:3] for r in ok)),
               evaluations=len(ok), distinct_nontrivial=len(ok),
               rule='one case = one compiled query: its SQL tree linearised and '
                    'validated by TLC against SqlScope.tla, its parameters checked '
                    'against the argument map, compiled twice in-process and once '
                    'in a second process')
    return dict(level='model_checking', coverage=cov, assumptions=[
        'the pgast tree is walked as the code generator prints it; column '
        'sets of tables and functions are not known ("*")',
        'unqualified column references are not resolved',
        lib.SHIM_TRUST])
