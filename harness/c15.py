"""C15 - the connection pool never oversubscribes or double-lends.

1. TLC, exhaustive: spec/ConnPool.tla with small constants - CapOK, LendOK,
   ReportOK, BlockOK, NoErr over every interleaving of the environment
   (every quota policy, every completion order, connect failures).
2. Conformance: the real Pool is driven, one loop callback at a time under
   virtual time, along (a) every schedule to a bounded depth, (b) seeded
   random schedules on four configurations, (c) behaviours TLC simulated
   from the spec.  After every step C15's predicates are asserted on the
   harness's ground truth (=> VIOLATION), and the recorded traces are
   validated against the spec by TLC (TraceConnPool.tla; rejection with all
   predicates true => SPEC-DRIFT).
"""
from __future__ import annotations

import json

import lib
import connpool_common as CC
import connpool_driver as D


def _key(v):
    return 'sched:' + json.dumps([v['cfg'], v['schedule'][:v['at']]])


def report_violations(rep, vs, pid='C15'):
    for v in vs:
        rep.violation(
            _key(v),
            f"pool config {v['cfg']}: after step {v['at']} of the schedule: "
            + '; '.join(v['failed'][:3]),
            dict(config=CC.CONFIGS[v['cfg']], cfg=v['cfg'],
                 schedule=v['schedule'][:v['at']], failed=v['failed'],
                 how='./check C15 --replay <this file> re-runs the schedule '
                     'on the real Pool (harness/connpool_driver.py)'))


def replay(path, rep):
    d = json.load(open(path))['replay']
    tr, viol = D.run_schedule(d['config'], [tuple(a) for a in d['schedule']])
    for n, bad in viol:
        print('step', n, bad)
        report_violations(rep, [dict(cfg=d['cfg'], schedule=d['schedule'],
                                     at=n, failed=bad)])
    if not viol:
        print('schedule ran clean:', len(tr), 'events')


def model_check(tier):
    cfgs = ['ConnPool_small.cfg'] if tier == 'quick' else \
           ['ConnPool_small.cfg', 'ConnPool_mid.cfg', 'ConnPool_fail.cfg']
    out = {}
    for c in cfgs:
        r = lib.run_tlc('ConnPool', c, timeout=7200, deadlock=False,
                        heap='24g')
        if r.violated:
            raise lib.MachineryError(
                f'TLC: {r.violated} violated in the MODEL ({c}); the design '
                f'itself admits a bad state - inspect:\n{r.output[-4000:]}')
        out[c] = r.summary()
    return out


def conformance(tier, seed, rep, pid='C15', extra_check=None):
    quick = tier == 'quick'
    plan = {   # cfg -> (random runs, steps, traces validated by TLC)
        'k1': (3000, 60, 400) if quick else (60000, 80, 3000),
        'k2': (3000, 120, 250) if quick else (60000, 160, 2000),
        'k3': (1500, 200, 100) if quick else (40000, 300, 1000),
        'k4': (1500, 80, 150) if quick else (30000, 120, 1000),
    }
    stats = {}
    samples = []
    all_traces = {k: [] for k in plan}
    nviol = 0
    actions = {}
    with CC.pool() as mp:
        jobs = []
        for cname, (runs, steps, _) in plan.items():
            per = max(1, runs // (lib.NCPU * 2))
            for j in range(0, runs, per):
                jobs.append((cname, seed * 1_000_003 + j, min(per, runs - j), steps))
        nruns = 0
        nsteps = 0
        for cname, trs, vs, acts in mp.imap_unordered(CC._rand_job, jobs):
            report_violations(rep, vs, pid)
            nviol += len(vs)
            nruns += len(trs)
            nsteps += sum(len(t) for t in trs)
            for k, v in acts.items():
                actions[k] = actions.get(k, 0) + v
            keep = plan[cname][2]
            if len(all_traces[cname]) < keep:
                all_traces[cname].extend(trs[:keep - len(all_traces[cname])])
        stats['random'] = dict(runs=nruns, steps=nsteps)

        # exhaustive bounded DFS on the smallest configuration
        depth = 8 if quick else 10
        pfx = CC.dfs_prefixes('k1', 3)
        cnt = leaves = 0
        for cname, c, lv, vs in mp.imap_unordered(
                CC._dfs_job, [('k1', p, depth) for p in pfx]):
            report_violations(rep, vs, pid)
            nviol += len(vs)
            cnt += c
            leaves += lv
        stats['dfs_k1'] = dict(depth=depth, nodes=cnt, schedules=leaves)

        # behaviours simulated by TLC from the spec, replayed into the code
        nsim = 300 if quick else 3000
        sim = {}
        for cname in ('k1', 'k2'):
            scheds = CC.tlc_simulated_schedules(cname, nsim, 40, seed)
            chunks = [scheds[i::lib.NCPU] for i in range(lib.NCPU)]
            n = 0
            for cn, trs, vs in mp.imap_unordered(
                    CC._given_job, [(cname, ch) for ch in chunks if ch]):
                report_violations(rep, vs, pid)
                nviol += len(vs)
                n += len(trs)
                all_traces[cn].extend(trs[:40])
            sim[cname] = n
        stats['tlc_simulated_behaviours_replayed'] = sim

    # trace validation by TLC
    tv = {}
    validated = 0
    tstates = 0
    for cname, trs in all_traces.items():
        trs = [t for t in trs if t]
        if not trs:
            continue
        res = CC.validate_traces(cname, trs, workers=8)
        validated += len(res['accepted'])
        tstates += res['states']
        tv[cname] = dict(traces=len(trs), accepted=len(res['accepted']),
                         rejected=len(res['rejected']), states=res['states'],
                         wall_s=round(res['wall'], 1))
        for (name, t, l) in res['inv'][:5]:
            tr = trs[t - 1]
            rep.violation(
                f'traceinv:{name}:' + json.dumps([cname, [e['a'] for e in tr[:l]]]),
                f'{name} is false in the spec state TLC inferred for a '
                f'recorded execution (config {cname}, event {l})',
                dict(cfg=cname, config=CC.CONFIGS[cname], invariant=name,
                     trace=tr[:l]))
        for t, l in list(res['rejected'].items())[:5]:
            tr = trs[t - 1]
            rep.spec_drift(
                f'config {cname}: recorded trace is not a behaviour of '
                f'ConnPool.tla from event {l} ({tr[l-1]["a"]}); matched prefix '
                f'{l-1}/{len(tr)}')
        if trs:
            samples.append(dict(cfg=cname, events=len(trs[0]),
                                first_events=[dict(a=e['a'], c=e['c'], db=e['db'],
                                                   x=e['x'], i=e['i'],
                                                   cur=e['s']['cur'])
                                              for e in trs[0][:12]]))
    stats['trace_validation'] = tv
    stats['actions_exercised'] = actions
    return stats, samples, validated, tstates


def run(tier, seed, rep):
    mc = model_check(tier)
    stats, samples, validated, tstates = conformance(tier, seed, rep)
    states = sum(v['distinct_states'] for v in mc.values())
    trans = sum(v['states_generated'] for v in mc.values())
    cov = dict(
        states=states, transitions=trans,
        traces_validated_against_impl=validated,
        samples=samples,
        evaluations=stats['random']['runs'] + stats['dfs_k1']['schedules'],
        distinct_nontrivial=stats['dfs_k1']['schedules'],
        rule='a case is one schedule of environment actions run on the real '
             'Pool with C15 asserted after every step; the DFS schedules are '
             'pairwise distinct by construction',
        model_checking=mc, conformance=stats,
        trace_validation_states=tstates,
        checker_cmd='tlc -config ConnPool_small.cfg ConnPool ; '
                    'tlc TraceConnPool (batched)',
    )
    return dict(level='model_checking', coverage=cov, assumptions=[
        'asyncio runs ready callbacks FIFO (modelled in the spec, enforced '
        'by the virtual-time loop)',
        'quota policy abstracted to any vector _tick can produce',
        'disconnect callbacks do not fail (not among the faults C15 lists)',
        'prune_all_connections (HA failover) is outside C15'])
