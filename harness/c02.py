"""C02: see harness/schema_props.py"""
import json
import schema_props as SP


def run(tier, seed, rep):
    return SP.run_c02(tier, seed, rep)


def replay(path, rep):
    print(json.dumps(json.load(open(path))['replay'], indent=1)[:4000])
