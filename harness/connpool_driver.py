"""Deterministic driver for the real edb.server.connpool.pool.Pool.

A virtual-time asyncio loop stepped ONE CALLBACK AT A TIME (FIFO, like
asyncio), connect/disconnect callbacks that park on harness-held futures,
and a ground-truth ledger of backend connections.  One environment action
of spec/ConnPool.tla = one method of `World`; after each, `World.event()`
gives the trace record (action + projection of the pool's reported state)
and `World.check()` asserts C15's predicates directly on ground truth.
"""
from __future__ import annotations

import asyncio
import heapq
import sys
import time
import types

import lib

_pool_mod = None


def pool_module():
    """import edb.server.connpool.pool from the working tree (stubbing the
    native rust pool the package __init__ may import)."""
    global _pool_mod
    if _pool_mod is not None:
        return _pool_mod
    if lib.REPO not in sys.path:
        sys.path.insert(0, lib.REPO)
    for name in ('edb.server._rust_native', 'edb.server._rust_native._conn_pool'):
        if name not in sys.modules:
            try:
                __import__(name)
            except Exception:
                m = types.ModuleType(name)
                m.__path__ = []

                class _X:
                    def __init__(self, *a, **k):
                        pass
                m.ConnPool = _X
                m.LoggingGuard = _X
                sys.modules[name] = m
    try:
        from edb.server.connpool import pool as P
    except Exception:
        pkg = types.ModuleType('edb.server.connpool')
        pkg.__path__ = [lib.REPO + '/edb/server/connpool']
        sys.modules['edb.server.connpool'] = pkg
        from edb.server.connpool import pool as P
    import logging
    logging.getLogger('edb.server').setLevel(logging.CRITICAL)
    _pool_mod = P
    return P


class VLoop(asyncio.BaseEventLoop):
    """Event loop with virtual time that never blocks and is stepped by hand."""

    def __init__(self):
        super().__init__()
        self.vt = 1000.0
        self.errors = []
        self.set_exception_handler(self._on_error)
        # pure-Python tasks/futures: identical semantics, introspectable
        self.set_task_factory(
            lambda loop, coro, **kw: asyncio.tasks._PyTask(coro, loop=loop, **kw))

    def _on_error(self, loop, ctx):
        exc = ctx.get('exception')
        self.errors.append((type(exc).__name__ if exc else 'error',
                            str(exc) if exc else ctx.get('message')))

    def create_future(self):
        return asyncio.futures._PyFuture(loop=self)

    def time(self):
        return self.vt

    def _process_events(self, evs):
        pass

    def _write_to_self(self):
        pass

    # ---- manual stepping
    def ready_handles(self):
        return [h for h in self._ready if not h._cancelled]

    def run_one(self):
        while self._ready:
            h = self._ready.popleft()
            if h._cancelled:
                continue
            asyncio.events._set_running_loop(self)
            try:
                h._run()
            finally:
                asyncio.events._set_running_loop(None)
            return True
        return False

    def timers(self):
        return sorted((h for h in self._scheduled if not h._cancelled),
                      key=lambda h: h._when)

    def pop_timer(self, h):
        self._scheduled.remove(h)
        heapq.heapify(self._scheduled)
        h._scheduled = False
        if h._when > self.vt:
            self.vt = h._when
        self._ready.append(h)


def _cb_name(h):
    cb = h._callback
    return getattr(cb, '__name__', repr(cb))


class Conn:
    __slots__ = ('id', 'db')

    def __init__(self, id, db):
        self.id, self.db = id, db

    def __repr__(self):
        return f'conn{self.id}:{self.db}'


class ConnectError(Exception):
    pass


class World:
    def __init__(self, dbs, clients, max_capacity, retries=1, gc_interval=120.0):
        P = pool_module()
        self.P = P
        self.dbs = list(dbs)
        self.clients = list(clients)
        self.max = max_capacity
        self._saved = (time.monotonic, P.config.CONNECT_FAILURE_RETRIES)
        self.loop = VLoop()
        time.monotonic = self.loop.time
        P.config.CONNECT_FAILURE_RETRIES = retries
        self.cq = []     # pending connect callbacks: (fut, db)
        self.dq = []     # pending disconnect callbacks: (fut, conn)
        self.nid = 0
        # ground truth
        self.open = {}   # id -> Conn   (connect completed, disconnect not)
        self.closing = set()
        self.broken = set()
        self.lent = {c: None for c in self.clients}
        self.cdb = {c: None for c in self.clients}
        self.pc = {c: 'idle' for c in self.clients}   # idle|pending|hold|failed
        self.tasks = {}
        self.snaps = []
        self.pool = P.Pool(connect=self._connect, disconnect=self._disconnect,
                           max_capacity=max_capacity,
                           stats_collector=self.snaps.append,
                           min_idle_time_before_gc=gc_interval)
        self.pool._loop = self.loop
        self.violations = []
        self.ever_lent = set()   # connection ids handed to a client since they were opened
        # connection ids whose last release() happened while the pool was in
        # Mode D and another block had requests waiting and no connection
        self.released_past_starved = set()

    def close(self):
        time.monotonic, self.P.config.CONNECT_FAILURE_RETRIES = self._saved
        for t in list(self.tasks.values()):
            if not t.done():
                t.cancel()
        try:
            self.loop.close()
        except Exception:
            pass

    # ---- callbacks handed to the pool
    async def _connect(self, db):
        fut = self.loop.create_future()
        self.cq.append((fut, db))
        return await fut

    async def _disconnect(self, conn):
        fut = self.loop.create_future()
        self.dq.append((fut, conn))
        if conn.id in self.open:
            self.closing.add(conn.id)
        else:
            self.violations.append(
                f'disconnect called on {conn!r} which is not open')
        await fut

    async def _client(self, c, db):
        try:
            conn = await self.pool.acquire(db)
        except ConnectError:
            self.pc[c] = 'failed'
            return
        self.pc[c] = 'hold'
        self.lent[c] = conn
        self.ever_lent.add(conn.id)
        # LendOK, checked at the instant of the hand-over
        others = [o for o in self.clients if o != c and self.lent[o] is conn]
        if others:
            self.violations.append(
                f'{conn!r} lent to {c} while still lent to {others}')
        if conn.id not in self.open:
            self.violations.append(f'{conn!r} lent to {c} but it is not open')
        elif conn.id in self.closing:
            self.violations.append(
                f'{conn!r} lent to {c} while its disconnect is in flight')
        if conn.db != db:
            self.violations.append(
                f'{c} asked for {db} but was lent {conn!r}')

    # ---- environment actions (names = spec actions)
    def enabled(self):
        acts = []
        for c in self.clients:
            if self.pc[c] in ('idle', 'failed'):
                for d in self.dbs:
                    acts.append(('Acquire', c, d))
            elif self.pc[c] == 'hold':
                acts.append(('Release', c, False))
                acts.append(('Release', c, True))
        for i in range(len(self.cq)):
            acts.append(('CompleteConnect', i + 1, True))
            acts.append(('CompleteConnect', i + 1, False))
        for i in range(len(self.dq)):
            acts.append(('CompleteDisconnect', i + 1))
        if self.loop.ready_handles():
            acts.append(('RunOne',))
        if self._next_timer() is not None:
            acts.append(('FireTimer',))
        return acts

    def _next_timer(self):
        for h in self.loop.timers():
            if _cb_name(h) in ('_tick', '_run_gc'):
                return h
        return None

    def do(self, act):
        """perform one environment action; returns the name actually logged"""
        k = act[0]
        if k == 'Acquire':
            _, c, d = act
            self.pc[c] = 'pending'
            self.cdb[c] = d
            self.lent[c] = None
            self.tasks[c] = self.loop.create_task(self._client(c, d))
            return act
        if k == 'Release':
            _, c, discard = act
            conn = self.lent[c]
            self.lent[c] = None
            self.pc[c] = 'idle'
            if discard:
                self.broken.add(conn.id)
            self.released_past_starved.discard(conn.id)
            if getattr(self.pool, '_is_starving', False) and any(
                    b.count_waiters() and not b.count_conns()
                    and not b.suppressed
                    for d, b in self.pool._blocks.items() if d != self.cdb[c]):
                self.released_past_starved.add(conn.id)
            asyncio.events._set_running_loop(self.loop)
            try:
                self.pool.release(self.cdb[c], conn, discard=discard)
            finally:
                asyncio.events._set_running_loop(None)
            return act
        if k == 'CompleteConnect':
            _, i, ok = act
            fut, db = self.cq.pop(i - 1)
            if ok:
                # connection identities are recycled once closed (smallest free)
                self.nid = next(i for i in range(1, 10**6) if i not in self.open)
                conn = Conn(self.nid, db)
                self.ever_lent.discard(conn.id)
                self.released_past_starved.discard(conn.id)
                self.open[conn.id] = conn
                fut.set_result(conn)
            else:
                fut.set_exception(ConnectError(f'cannot connect to {db}'))
            return act
        if k == 'CompleteDisconnect':
            _, i = act
            fut, conn = self.dq.pop(i - 1)
            self.open.pop(conn.id, None)
            self.closing.discard(conn.id)
            self.broken.discard(conn.id)
            fut.set_result(None)
            return act
        if k == 'RunOne':
            self.loop.run_one()
            return act
        if k == 'FireTimer':
            # fire the earliest pool timer; log-batching timers that are due
            # earlier run silently (they do not touch pool state)
            h = self._next_timer()
            for o in self.loop.timers():
                if o is h:
                    break
                self.loop.pop_timer(o)
                self.loop._ready.remove(o)
                o._run()
            name = _cb_name(h)
            self.loop.pop_timer(h)
            return ('FireTick',) if name == '_tick' else ('FireGC',)
        if k == 'Advance':
            nt = self._next_timer()
            t = self.loop.vt + act[1]
            if nt is not None:
                t = min(t, nt._when - 1e-9)
            self.loop.vt = max(self.loop.vt, t)
            return None
        raise ValueError(act)

    # ---- projection (what the pool REPORTS) and trace record
    def proj(self):
        pool = self.pool
        blocks = {}
        for d in self.dbs:
            b = pool._blocks.get(d)
            if b is None:
                blocks[d] = dict(ex=False, nconns=0, npending=0, nwaiters=0,
                                 quota=0, stack=[], acq=0)
            else:
                blocks[d] = dict(
                    ex=True, nconns=len(b.conns),
                    npending=b.count_pending_conns(),
                    nwaiters=b.count_waiters(), quota=b.quota,
                    stack=[c.id for c in b.conn_stack],
                    acq=b.conn_acquired_num)
        return dict(
            cur=pool.current_capacity,
            starving=bool(getattr(pool, '_is_starving', False)),
            blocks=blocks,
            hold={c: (self.lent[c].id if self.lent[c] is not None else 0)
                  for c in self.clients},
            nready=len(self.loop.ready_handles()),
            ncq=len(self.cq), ndq=len(self.dq))

    def event(self, logged):
        ev = dict(a=logged[0], c='-', db='-', x=False, i=0)
        if logged[0] == 'Acquire':
            ev.update(c=logged[1], db=logged[2])
        elif logged[0] == 'Release':
            ev.update(c=logged[1], x=bool(logged[2]))
        elif logged[0] == 'CompleteConnect':
            ev.update(i=logged[1], x=bool(logged[2]))
        elif logged[0] == 'CompleteDisconnect':
            ev.update(i=logged[1])
        ev['s'] = self.proj()
        return ev

    # ---- C15 asserted directly on ground truth
    def check(self):
        v = list(self.violations)
        self.violations.clear()
        usable = set(self.open) - self.broken
        opening = len(self.cq)
        if len(usable) + opening > self.max:
            v.append(f'capacity exceeded: {len(usable)} open (not broken) + '
                     f'{opening} being opened > max {self.max}')
        holders = {}
        for c, conn in self.lent.items():
            if conn is None:
                continue
            if conn.id in holders:
                v.append(f'{conn!r} lent to both {holders[conn.id]} and {c}')
            holders[conn.id] = c
            if conn.id not in self.open:
                v.append(f'{conn!r} is lent to {c} but not open')
            elif conn.id in self.closing:
                v.append(f'{conn!r} is lent to {c} but being disconnected')
        if not self.loop.ready_handles():
            true_usage = len(self.open) + opening
            if self.pool.current_capacity != true_usage:
                v.append(f'reported usage {self.pool.current_capacity} != '
                         f'true usage {true_usage} (open {sorted(self.open)}, '
                         f'opening {opening}) at a quiescent point')
        for name, msg in self.loop.errors:
            v.append(f'exception escaped a pool callback: {name}: {msg}')
        self.loop.errors.clear()
        return v

    # ---- helpers for liveness runs
    def quiescent(self):
        return not self.loop.ready_handles()

    def run_ready(self, limit=10000):
        n = 0
        while self.loop.ready_handles() and n < limit:
            self.loop.run_one()
            n += 1
        return n


def run_schedule(cfg, schedule, record=True):
    """Run a schedule (list of env actions); returns (trace, violations).

    Actions that are not enabled when reached end the run (the prefix stands).
    """
    w = World(cfg['dbs'], cfg['clients'], cfg['max'], cfg.get('retries', 1))
    trace = []
    viol = []
    try:
        for n, act in enumerate(schedule):
            act = tuple(act)
            if act[0] != 'Advance' and act not in w.enabled():
                break
            logged = w.do(act)
            if logged is not None and record:
                trace.append(w.event(logged))
            bad = w.check()
            if bad:
                viol.append((n, bad))
                break
    finally:
        w.close()
    return trace, viol
