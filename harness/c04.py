"""C04 - the schema stays referentially intact; earlier versions stay frozen.

Index layer: spec/FlatSchema.tla models the persistent maps of FlatSchema
(id->data, name indexes, reverse-reference index).  TLC checks RefsInv /
NameInv / RejectedIsStutter; every history of API calls up to MaxLen is one
TLC state whose expected projection is printed, and is replayed on the real
FlatSchema with real schema classes (Module, ObjectType, Property):
lookups by id, by name and by referrer must agree with the spec after every
call, a failing call must raise and leave the receiver unchanged, and every
EARLIER schema value must still project to what it projected to when it was
obtained.

Command layer: seeded random DDL histories (create / alter / rename / drop
of modules, types, scalars, properties, links, constraints, indexes,
annotations, functions, aliases - including commands that are rejected,
some part-way) are compiled statement by statement by the real server
compiler; after every statement a generic integrity audit walks the real
schema: every object-reference field of every object resolves in the same
schema, get_referrers is the inverse of the forward fields, get(name) /
get_by_id agree, ancestors are the transitive closure of bases, dropped ids
are unreachable; a rejected statement leaves the schema value identical and
all earlier schema values unchanged.
"""
from __future__ import annotations

import json
import multiprocessing as mp
import random
import uuid

import lib

_S = {}


def S():
    if _S:
        return _S
    import boot
    from edb.schema import schema as s_schema, objtypes, properties, modules
    from edb.schema import name as sn, objects as so
    _S.update(boot=boot, s_schema=s_schema, objtypes=objtypes,
              properties=properties, modules=modules, sn=sn, so=so)
    return _S


def U(i):
    return uuid.UUID(int=i)


# ------------------------------------------------------------------ index layer
def _cls(letter):
    st = S()
    return {'M': st['modules'].Module, 'T': st['objtypes'].ObjectType,
            'P': st['properties'].Property}[letter]


def _name(letter, n):
    sn = S()['sn']
    return sn.UnqualName(n[0]) if len(n) == 1 else sn.QualName(n[0], n[1])


def _mk(cls, **f):
    fields = cls.get_schema_fields()
    data = [None] * len(fields)
    for k, v in f.items():
        data[fields[k].index] = v
    return tuple(data)


def _handle(i):
    return S()['objtypes'].ObjectType(_private_id=U(i))


def apply_op(schema, op):
    """returns new schema; raises on rejection"""
    st = S()
    k = op[0]
    if k == 'add':
        _, i, letter, name, src, tgt = op
        cls = _cls(letter)
        f = dict(name=_name(letter, name))
        if letter == 'P':
            if src:
                f['source'] = _handle(src)
            if tgt:
                f['target'] = _handle(tgt)
        return schema.add(U(i), cls, _mk(cls, **f))
    obj = schema.get_by_id(U(op[1]), default=None)
    if k == 'rename':
        if obj is None:
            raise LookupError('no such object')
        letter = 'M' if isinstance(obj, st['modules'].Module) else 'T'
        return schema.update_obj(obj, {'name': _name(letter, op[2])})
    if k == 'setref':
        _, i, field, v = op
        if obj is None or not isinstance(obj, st['properties'].Property):
            raise LookupError('no such pointer')
        # exercise the three entry points of the API
        if v == 0:
            return schema.unset_obj_field(obj, field) if (i + len(field)) % 2 \
                else schema.update_obj(obj, {field: None})
        return schema.set_obj_field(obj, field, _handle(v)) if (i + v) % 2 \
            else schema.update_obj(obj, {field: _handle(v)})
    if k == 'delete':
        if obj is None:
            obj = _handle(op[1])
        return schema.delete(obj)
    if k == 'discard':
        if obj is None:
            obj = _handle(op[1])
        return schema.discard(obj)
    raise ValueError(op)


def project(schema, ids):
    """observable state of a real schema in the spec's terms"""
    st = S()
    data = {}
    refs = {}
    for i in ids:
        obj = schema.get_by_id(U(i), default=None)
        if obj is None:
            data[i] = ('-', (), 0, 0)
            if schema.has_object(U(i)):
                data[i] = ('?has_object-without-get_by_id',)
        else:
            letter = ('M' if isinstance(obj, st['modules'].Module) else
                      'P' if isinstance(obj, st['properties'].Property) else 'T')
            name = obj.get_name(schema)
            nm = (str(name),) if letter == 'M' else (name.module, name.name)
            src = tgt = 0
            if letter == 'P':
                s = obj.get_explicit_field_value(schema, 'source', None)
                t = obj.get_explicit_field_value(schema, 'target', None)
                src = s.id.int if s is not None else 0
                tgt = t.id.int if t is not None else 0
            # lookups by name must find this very object
            if letter == 'M':
                got = schema.get_global(st['modules'].Module, nm[0], default=None)
            else:
                got = schema.get(name, default=None)
            if got is None or got.id != obj.id:
                nm = ('?name-lookup-disagrees',) + nm
            data[i] = (letter, nm, src, tgt)
        rr = set()
        for (cls, field), objs in schema.get_referrers_ex(_handle(i)).items():
            for o in objs:
                rr.add((o.id.int, field))
        flat = {o.id.int for o in schema.get_referrers(_handle(i))}
        if flat != {r[0] for r in rr}:
            rr.add(('?get_referrers-disagrees', tuple(sorted(flat))))
        refs[i] = frozenset(rr)
    return data, refs


def expected(data_rows, ref_rows, ids):
    data = {}
    for i, rec in zip(ids, data_rows):
        data[i] = (rec['cls'], tuple(rec['name']), rec['source'], rec['target'])
    refs = {i: frozenset((r[0], r[1]) for r in rr)
            for i, rr in zip(ids, ref_rows)}
    return data, refs


def replay_index_history(hist, exp_last, exp_data, exp_refs, ids, preload):
    st = S()
    schema = st['s_schema'].EMPTY_SCHEMA
    if preload:
        schema = apply_op(schema, ('add', 1, 'M', ('m',), 0, 0))
        schema = apply_op(schema, ('add', 2, 'M', ('n',), 0, 0))
    versions = [(schema, project(schema, ids))]
    bad = []
    last = 'ok'
    for op in hist:
        before = schema
        try:
            schema = apply_op(schema, op)
            last = 'ok'
        except Exception:
            last = 'rejected'
            schema = before
        versions.append((schema, project(schema, ids)))
    if last != exp_last:
        bad.append(f'{hist[-1]}: spec says {exp_last}, the code {last}')
    got = project(schema, ids)
    exp = expected(exp_data, exp_refs, ids)
    if got != exp:
        for i in ids:
            if got[0][i] != exp[0][i]:
                bad.append(f'object {i}: expected {exp[0][i]}, schema has {got[0][i]}')
            if got[1][i] != exp[1][i]:
                bad.append(f'referrers of {i}: expected {sorted(exp[1][i])}, '
                           f'get_referrers gives {sorted(map(str, got[1][i]))}')
    # earlier versions stay frozen
    for n, (sv, pj) in enumerate(versions):
        if project(sv, ids) != pj:
            bad.append(f'the schema value obtained after call {n} was changed '
                       f'by later calls')
            break
    return bad


def parse_out(output):
    rows = []
    for line in output.splitlines():
        if not line.startswith('"OUT '):
            continue
        txt = line[5:-1].replace('\\"', '"')
        hist, last, data, refs = lib.fast_parse_tla(txt)
        rows.append((hist, last, data, refs))
    return rows


def _idx_job(args):
    rows, ids, preload = args
    S()
    out = []
    for hist, last, data, refs in rows:
        bad = replay_index_history(hist, last, data, refs, ids, preload)
        if bad:
            out.append(dict(layer='index', preload=preload, ids=list(ids),
                            history=[_js(o) for o in hist], failed=bad[:4]))
    return len(rows), out


def _js(x):
    if isinstance(x, (tuple, list)):
        return [_js(y) for y in x]
    return x


# ------------------------------------------------------------------ command layer
def audit(schema, std):
    """generic referential-integrity audit of a real (user) schema"""
    st = S()
    so = st['so']
    bad = []
    full = st['s_schema'].ChainedSchema(std, schema, st['s_schema'].EMPTY_SCHEMA)
    objs = list(schema.get_objects(exclude_stdlib=False))
    ids = {o.id for o in objs}
    fwd = {}       # target id -> set((referrer id, field))
    for o in objs:
        cls = type(o)
        if full.get_by_id(o.id, default=None) is None:
            bad.append(f'{o!r} listed by get_objects but get_by_id fails')
            continue
        try:
            nm = o.get_name(full)
        except Exception as e:
            bad.append(f'{o!r}: get_name fails: {e}')
            continue
        # by-name lookup agrees
        try:
            if isinstance(o, so.QualifiedObject):
                got = full.get(nm, default=None)
            else:
                got = full.get_global(cls, nm, default=None)
        except Exception as e:
            got = None
        if got is None or got.id != o.id:
            bad.append(f'{cls.__name__} {nm}: lookup by name returns '
                       f'{got!r} instead of the object itself')
        for field in cls.get_object_reference_fields():
            val = o.get_explicit_field_value(full, field.name, None)
            if val is None:
                continue
            try:
                raw = schema.get_obj_data_raw(o)[field.index]
                refids = field.type.schema_refs_from_data(raw) if raw is not None else ()
            except Exception as e:
                bad.append(f'{cls.__name__} {nm}.{field.name}: cannot read '
                           f'references: {e}')
                continue
            for rid in refids:
                if full.get_by_id(rid, default=None) is None:
                    bad.append(f'{cls.__name__} {nm}.{field.name} refers to '
                               f'{rid} which is not in the schema')
                fwd.setdefault(rid, set()).add((o.id, field.name))
    # reverse index = inverse of forward fields (for user-schema targets)
    for o in objs:
        rr = set()
        try:
            for (cls, field), refs in schema.get_referrers_ex(o).items():
                for r in refs:
                    rr.add((r.id, field))
        except Exception as e:
            bad.append(f'get_referrers_ex({o!r}) fails: {type(e).__name__}: {e}')
            continue
        want = fwd.get(o.id, set())
        if rr != want:
            extra = [(str(a), f) for a, f in rr - want][:3]
            missing = [(str(a), f) for a, f in want - rr][:3]
            bad.append(f'referrer index of {o.get_name(full)} disagrees with '
                       f'the objects\' own fields: stale={extra} missing={missing}')
    # ancestors = transitive closure of bases
    for o in objs:
        if not hasattr(o, 'get_bases') or not hasattr(o, 'get_ancestors'):
            continue
        try:
            anc = [a.id for a in o.get_ancestors(full).objects(full)]
            seen = []
            todo = [b for b in o.get_bases(full).objects(full)]
            while todo:
                b = todo.pop(0)
                if b.id not in seen:
                    seen.append(b.id)
                    if hasattr(b, 'get_bases'):
                        todo.extend(b.get_bases(full).objects(full))
            if set(anc) != set(seen):
                bad.append(f'ancestors of {o.get_name(full)} are not the '
                           f'closure of its bases')
        except Exception as e:
            bad.append(f'{o!r}: ancestors/bases unreadable: {type(e).__name__}: {e}')
    return bad, ids


DDL_POOL = None


def ddl_statements(rnd, have=None):
    """one random DDL statement (may be invalid on purpose); `have` maps the
    existing user types to their pointer names so that most statements hit
    something that exists"""
    T = ['A', 'B', 'C']
    P = ['p', 'q']
    t = rnd.choice(T)
    t2 = rnd.choice(T)
    p = rnd.choice(P)
    if (not have or len(have) < 2) and rnd.random() < 0.7:
        missing = [x for x in T if x not in (have or {})]
        t = rnd.choice(missing)
        t2 = rnd.choice(sorted(have)) if have else t
        return rnd.choice([
            f'create type {t}',
            f'create type {t} {{ create property p -> str; }}',
            f'create type {t} {{ create required property p -> str {{ create constraint exclusive; }}; create link l -> {t2}; create multi link ml -> {t2}; }}',
            f'create abstract type {t} {{ create property q -> str; }}',
        ])
    if have and rnd.random() < 0.8:
        ex = sorted(have)
        missing = [x for x in T if x not in have]
        r = rnd.random()
        if missing and r < 0.25:
            t = rnd.choice(missing)          # mostly creations succeed
            t2 = rnd.choice(ex)
        else:
            t = rnd.choice(ex)
            t2 = rnd.choice(ex)
            ptrs = sorted(x for x in have[t] if x in P)
            if ptrs and rnd.random() < 0.6:
                p = rnd.choice(ptrs)
            else:
                free = [x for x in P if x not in have[t]]
                if free:
                    p = rnd.choice(free)
    choices = [
        f'create type {t}',
        f'create type {t} extending {t2}',
        f'create abstract type {t}',
        f'create type {t} {{ create property {p} -> str; }}',
        f'create type {t} {{ create required property {p} -> str {{ create constraint exclusive; }}; create link l -> {t2}; }}',
        f'alter type {t} create property {p} -> str',
        f'alter type {t} create property {p} -> int64',
        f'alter type {t} create multi property {p} -> str',
        f'alter type {t} create link l -> {t2}',
        f'alter type {t} create multi link ml -> {t2} {{ create property lp -> str; }}',
        f'alter type {t} create link l2 -> {t2} {{ on target delete allow; }}',
        f'alter type {t} alter property {p} create constraint exclusive',
        f'alter type {t} alter property {p} drop constraint exclusive',
        f'alter type {t} create index on (.{p})',
        f'alter type {t} drop index on (.{p})',
        f'alter type {t} create constraint expression on (.{p} != "x")',
        f'alter type {t} alter property {p} set default := "d"',
        f'alter type {t} alter property {p} set default := f()',
        f'alter type {t} alter property {p} reset default',
        f'alter type {t} alter property {p} set required',
        f'alter type {t} alter property {p} set type int64 using (<int64>.{p})',
        f'alter type {t} alter property {p} rename to {rnd.choice(P)}r',
        f'alter type {t} alter link l set type {rnd.choice(T)}',
        f'alter type {t} drop property {p}',
        f'alter type {t} drop link l',
        f'alter type {t} drop link ml',
        f'alter type {t} rename to {rnd.choice(T)}',
        f'alter type {t} rename to {t}2',
        f'alter type {t} extending {t2}',
        f'alter type {t} drop extending {t2}',
        f'alter type {t} create annotation title := "x"',
        f'alter type {t} drop annotation title',
        f'alter type {t} create property c{p} := (.{p} ++ "!")',
        f'alter type {t} create link cl := (select {t2} limit 1)',
        f'drop type {t}',
        f'drop type {t}2',
        'create function f() -> str using ("x")',
        f'create function g(a: {t}) -> str using (a.{p})',
        'drop function f()',
        f'drop function g(a: {t})',
        f'create alias Al := (select {t} {{ {p} }})',
        'drop alias Al',
        f'create scalar type S extending str',
        f'create scalar type S extending str {{ create constraint max_len_value(5); }}',
        f'alter type {t} create property target -> S',
        f'alter type {t} create property s{p} -> S',
        'drop scalar type S',
        f'create global G -> str',
        f'create global GT := (select {t} limit 1)',
        'drop global G', 'drop global GT',
        'create module other', 'drop module other',
        f'create type other::{t} {{ create link l -> default::{t2}; }}',
        f'drop type other::{t}',
        f'alter type {t} {{ create property z1 -> str; create property z1 -> str; }}',
        f'alter type {t} {{ create property z2 -> str; create link zl -> NoSuchType; }}',
        f'create type Z {{ create property a -> str; create index on (.nosuch); }}',
        f'alter type {t} {{ create access policy ap allow all using (.{p} = "x"); }}',
        f'alter type {t} drop access policy ap',
        f'alter type {t} {{ create trigger tr after insert for each do (select {t2}); }}',
        f'alter type {t} drop trigger tr',
        f'alter type {t} alter property {p} {{ create rewrite insert using ("r"); }}',
    ]
    return rnd.choice(choices)


def run_ddl_history(seed, n):
    st = S()
    boot = st['boot']
    from edb.server.compiler import compiler as C
    from edb import edgeql, errors
    rnd = random.Random(seed)
    std = boot.std_schema()
    ctx = boot.new_ctx()
    C.compile(ctx=ctx, source=edgeql.Source.from_string('create module default'))
    bad = []
    hist = []
    versions = []
    dropped_ids = set()
    naccept = 0
    for step in range(n):
        before = ctx.state.current_tx().get_user_schema()
        have = {}
        for o in before.get_objects(type=st['objtypes'].ObjectType):
            nm = o.get_name(before)
            if nm.module == 'default' and not o.is_view(before) \
                    and not o.is_compound_type(before):
                have[nm.name] = {str(pn) for pn in
                                 o.get_pointers(before).keys(before)}
        stmt = ddl_statements(rnd, have)
        hist.append(stmt)
        bproj, bids = audit(before, std) if not versions else versions[-1][1:3]
        try:
            C.compile(ctx=ctx, source=edgeql.Source.from_string(stmt))
            accepted = True
            naccept += 1
        except errors.EdgeDBError:
            accepted = False
        except Exception as e:
            accepted = False
            # internal errors are rejections too; the schema must survive
        after = ctx.state.current_tx().get_user_schema()
        if not accepted and after is not before:
            a1, _ = audit(after, std)
            if _fingerprint(after) != _fingerprint(before):
                bad.append(f'rejected statement changed the schema: {stmt}')
        try:
            abad, aids = audit(after, std)
        except Exception as e:
            abad, aids = [f'integrity audit cannot even read the schema: '
                          f'{type(e).__name__}: {e}'], set()
        for b in abad:
            bad.append(f'after `{stmt}`: {b}')
        dropped_ids |= (bids - aids)
        for did in dropped_ids - aids:
            if after.get_by_id(did, default=None) is not None:
                bad.append(f'dropped object {did} still reachable by id')
        versions.append((after, abad, aids, _fingerprint(after)))
        if bad:
            break
    # earlier versions frozen
    for n_, (sv, _, _, fp) in enumerate(versions):
        if _fingerprint(sv) != fp:
            bad.append(f'schema value obtained after statement {n_ + 1} was '
                       f'changed by later statements')
            break
    return hist, bad, naccept


# every kind of referenced object x every kind of referrer: after creating the
# referrer, dropping / renaming the referenced object must either be refused
# or leave no dangling reference behind (the audit decides)
def dependency_matrix():
    referenced = {
        'scalar': ('create scalar type S extending str', 'drop scalar type S',
                   'alter scalar type S rename to S2', 'S'),
        'type': ('create type R { create property rp -> str; }', 'drop type R',
                 'alter type R rename to R2', 'R'),
        'function': ('create function fn() -> str using ("x")',
                     'drop function fn()', 'alter function fn() rename to fn2',
                     'fn()'),
        'global': ('create global gl -> str', 'drop global gl',
                   'alter global gl rename to gl2', 'global gl'),
        'abstract constraint': (
            'create abstract constraint ac on (len(<str>__subject__)) '
            '{ using (__subject__ < 10); }',
            'drop abstract constraint ac',
            'alter abstract constraint ac rename to ac2', None),
        'annotation': ('create abstract annotation an',
                       'drop abstract annotation an',
                       'alter abstract annotation an rename to an2', None),
    }
    scripts = []
    for kind, (create, drop, rename, expr) in referenced.items():
        referrers = []
        if kind == 'scalar':
            for pn in ('val', 'source', 'target', 'id2'):
                referrers.append(f'create type D {{ create property {pn} -> S; }}')
            referrers += [
                'create type D { create multi property mp -> S; }',
                'create type D { create link l -> D { create property lp -> S; }; }',
                'create function uf(a: S) -> str using (<str>a)',
                'create function uf() -> S using (<S>"x")',
                'create global ug -> S',
                'create scalar type S3 extending S',
                'create alias UA := (select <S>"x")',
                'create type D { create property cp := (<S>"x"); }',
            ]
        elif kind == 'type':
            for ln in ('l', 'source', 'target'):
                referrers.append(f'create type D {{ create link {ln} -> R; }}')
            referrers += [
                'create type D { create multi link ml -> R; }',
                'create type D extending R',
                'create function uf(a: R) -> str using (a.rp)',
                'create alias UA := (select R { rp })',
                'create global ug := (select R limit 1)',
                'create type D { create link cl := (select R limit 1); }',
                'create type D { create property cnt := (count(R)); }',
                'create type D { create property dp -> str { set default := (select R.rp limit 1); }; }',
                'create type D { create access policy ap allow all using (exists R); }',
                'create type D { create trigger tr after insert for each do (select R); }',
                'create type D { create property x -> str; create constraint expression on (.x != "a" or exists (select 1)); create index on (.x); }',
            ]
        elif kind == 'function':
            referrers += [
                'create type D { create property dp -> str { set default := fn(); }; }',
                'create type D { create property cp := (fn()); }',
                'create alias UA := (select fn())',
                'create function uf() -> str using (fn())',
                'create global ug := (fn())',
                'create type D { create property x -> str; create constraint expression on (.x != fn()); }',
                'create type D { create property x -> str; create index on (.x ++ fn()); }',
                'create type D { create property x -> str { create rewrite insert using (fn()); }; }',
                'create type D { create access policy ap allow all using (fn() = "x"); }',
            ]
        elif kind == 'global':
            referrers += [
                'create type D { create property cp := (global gl); }',
                'create alias UA := (select global gl)',
                'create function uf() -> optional str using (global gl)',
                'create type D { create access policy ap allow all using ((global gl) ?= "x"); }',
                'create global ug := (global gl)',
            ]
        elif kind == 'abstract constraint':
            referrers += [
                'create type D { create property x -> str { create constraint ac; }; }',
                'create scalar type S9 extending str { create constraint ac; }',
            ]
        else:
            referrers += [
                'create type D { create annotation an := "x"; }',
                'create type D { create property x -> str { create annotation an := "y"; }; }',
                'create function uf() -> str { create annotation an := "z"; using ("x"); }',
            ]
        for ref in referrers:
            for last in (drop, rename):
                scripts.append([create, ref, last])
                # and with the referrer changed before the drop
                scripts.append([create, ref, 'alter type D rename to D2', last])
    return scripts


def run_ddl_script(stmts):
    st = S()
    boot = st['boot']
    from edb.server.compiler import compiler as C
    from edb import edgeql
    std = boot.std_schema()
    ctx = boot.new_ctx()
    C.compile(ctx=ctx, source=edgeql.Source.from_string('create module default'))
    bad = []
    outcomes = []
    for stmt in stmts:
        before = ctx.state.current_tx().get_user_schema()
        fp = _fingerprint(before)
        try:
            C.compile(ctx=ctx, source=edgeql.Source.from_string(stmt))
            outcomes.append('ok')
        except Exception as e:
            outcomes.append(type(e).__name__)
            after = ctx.state.current_tx().get_user_schema()
            if _fingerprint(after) != fp:
                bad.append(f'rejected statement changed the schema: {stmt}')
        after = ctx.state.current_tx().get_user_schema()
        try:
            abad, _ = audit(after, std)
        except Exception as e:
            abad = [f'integrity audit cannot even read the schema: '
                    f'{type(e).__name__}: {e}']
        for b in abad:
            bad.append(f'after `{stmt}`: {b}')
        if _fingerprint(before) != fp:
            bad.append(f'an earlier schema value was changed by `{stmt}`')
        if bad:
            break
    return outcomes, bad


def _script_job(scripts):
    S()
    out = []
    nacc = 0
    for sc in scripts:
        outcomes, bad = run_ddl_script(sc)
        nacc += outcomes.count('ok')
        if bad:
            out.append(dict(layer='script', history=sc, outcomes=outcomes,
                            failed=bad[:4]))
    return len(scripts), nacc, out


def _fingerprint(schema):
    out = []
    for o in schema.get_objects(exclude_stdlib=False):
        try:
            out.append((str(o.id), type(o).__name__,
                        repr(schema.get_obj_data_raw(o))))
        except Exception as e:
            out.append((str(o.id), 'ERR', str(e)))
    return hash(tuple(sorted(out)))


def _ddl_job(args):
    seed0, count, n = args
    S()
    out = []
    acc = 0
    stmts = 0
    for i in range(count):
        hist, bad, na = run_ddl_history(seed0 + i, n)
        acc += na
        stmts += len(hist)
        if bad:
            out.append(dict(layer='ddl', seed=seed0 + i, n=n, history=hist,
                            failed=bad[:4]))
    return count, stmts, acc, out


def report(rep, vs):
    for v in vs:
        if v['layer'] == 'script':
            key = 'script:' + json.dumps(v['history'])
            what = (f"DDL script {v['history']} (outcomes {v['outcomes']}): "
                    + '; '.join(v['failed'][:2]))
        elif v['layer'] == 'index':
            key = 'index:' + json.dumps([v['preload'], v['history']])
            what = f"FlatSchema API history {v['history']}: " + '; '.join(v['failed'][:2])
        else:
            key = 'ddl:' + json.dumps(v['history'])
            what = (f"DDL history (seed {v['seed']}, {len(v['history'])} "
                    f"statements, last: {v['history'][-1]!r}): "
                    + '; '.join(v['failed'][:2]))
        rep.violation(key, what, v)


def replay(path, rep):
    d = json.load(open(path))['replay']
    if d['layer'] == 'script':
        outcomes, bad = run_ddl_script(d['history'])
        print(outcomes, bad)
        if bad:
            report(rep, [dict(d, failed=bad, outcomes=outcomes)])
    elif d['layer'] == 'ddl':
        hist, bad, _ = run_ddl_history(d['seed'], d['n'])
        print(bad)
        if bad:
            report(rep, [dict(d, failed=bad)])
    else:
        print('index-layer histories are replayed by re-running ./check C04 '
              '(the expectation comes from TLC)')


def run(tier, seed, rep):
    quick = tier == 'quick'
    S()['boot'].compiler()     # build / load caches once; workers are forked after
    states = trans = 0
    nrows = 0
    samples = []
    mc = {}
    with mp.Pool(lib.NCPU) as pool:
        idx_cfgs = [('FlatSchema_2.cfg', (1, 2, 3), False)]
        if not quick:
            idx_cfgs.append(('FlatSchema_2p.cfg', (1, 2, 3, 4), True))
        for cfg, ids, preload in idx_cfgs:
            r = lib.run_tlc('FlatSchema', cfg, timeout=1800, deadlock=False)
            if r.violated:
                raise lib.MachineryError(f'{cfg}: {r.violated}\n{r.output[-2000:]}')
            rows = parse_out(r.output)
            states += r.distinct
            trans += r.generated
            mc[cfg] = r.summary()
            nrows += len(rows)
            chunks = [rows[i::lib.NCPU * 2] for i in range(lib.NCPU * 2)]
            for n, out in pool.imap_unordered(
                    _idx_job, [(ch, ids, preload) for ch in chunks if ch]):
                report(rep, out)
            samples.append(dict(cfg=cfg, history=_js(rows[len(rows) // 3][0]),
                                expected_last=rows[len(rows) // 3][1]))
        rs = lib.run_tlc('FlatSchema', 'FlatSchema_sim.cfg', workers=8,
                         timeout=1200, simulate=f'num={400 if quick else 8000}',
                         depth=12, seed=seed, deadlock=False)
        sim = [x for x in parse_out(rs.output) if len(x[0]) >= 4]
        chunks = [sim[i::lib.NCPU] for i in range(lib.NCPU)]
        for n, out in pool.imap_unordered(
                _idx_job, [(ch, (1, 2, 3, 4, 5), True) for ch in chunks if ch]):
            report(rep, out)
        nrows += len(sim)

        # command layer
        nh = 48 if quick else 1600
        ln = 16 if quick else 40
        per = max(1, nh // (lib.NCPU * 2))
        jobs = [(seed * 100003 + j, min(per, nh - j), ln)
                for j in range(0, nh, per)]
        nhist = nst = nacc = 0
        for c, s_, a, out in pool.imap_unordered(_ddl_job, jobs):
            nhist += c
            nst += s_
            nacc += a
            report(rep, out)
        scripts = dependency_matrix()
        chunks = [scripts[i::lib.NCPU] for i in range(lib.NCPU)]
        nscripts = nsacc = 0
        for c, a, out in pool.imap_unordered(_script_job, [ch for ch in chunks if ch]):
            nscripts += c
            nsacc += a
            report(rep, out)
    h, b, a = run_ddl_history(seed, 8)
    samples.append(dict(layer='ddl', history=h))
    cov = dict(
        states=states, transitions=trans,
        traces_validated_against_impl=nrows + nhist,
        samples=samples, model_checking=mc,
        index_layer_histories=nrows,
        ddl_histories=nhist, ddl_statements=nst, ddl_statements_accepted=nacc,
        dependency_matrix_scripts=nscripts, dependency_matrix_statements_accepted=nsacc,
        evaluations=nrows + nst, distinct_nontrivial=nrows,
        rule='index layer: every history of <= 2 FlatSchema API calls over the '
             'model alphabet (one TLC state each) + simulated histories of '
             'length <= 12; command layer: seeded random DDL histories with a '
             'full integrity audit after every statement')
    return dict(level='model_checking', coverage=cov, assumptions=[
        'the index-layer model covers Module / ObjectType / Property and the '
        'fields name, source, target; other classes are reached through the '
        'DDL histories and the generic audit', lib.SHIM_TRUST])
