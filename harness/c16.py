"""C16 - every connection request is eventually served.

Model: spec/ConnPool.tla, LiveSpec = Spec + weak fairness of the loop, the
timers, successful connect completion, disconnect completion and release by
holders; property Served (pending ~> holding or failed) and the safety
companion NoLostWakeup, checked by TLC without a state constraint
(ConnPool_live*.cfg).  The model's _tick policy is refined by FairPolicy
(Mode C gives a waiting block without connections a quota >= 1).

Code: bounded liveness.  Every schedule prefix (seeded random over four
pool configurations, TLC-simulated behaviours, exhaustive short prefixes) is
continued in FAIR COMPLETION MODE on the real Pool under virtual time: the
loop runs, connects succeed, disconnects finish, holders release after a
finite delay, timers fire, nobody new arrives.  Verdicts:
  all acquire() calls returned                         -> pass
  a pending acquire while the projected pool state no longer changes over
  60 rebalancing ticks and - as long as a garbage-collection timer is
  pending, because GC can free capacity for a blocked request - over three
  GC runs, all timers fired in due-time order (driver and pool are
  deterministic)                                        -> VIOLATION
  budget exhausted while the state still changes        -> inconclusive
                                                            (counted, exit 0)
  connect failures exhausted the retries but a waiter of that block is
  still blocked after the loop drained                 -> VIOLATION
Also: recorded traces of these runs are validated against ConnPool.tla with
the refined policy (ties the model's liveness argument to the code's
policy), and every _tick observed is checked against FairPolicy.
"""
from __future__ import annotations

import json
import random
import zlib

import lib
import connpool_common as CC
import connpool_driver as D


def stuck_signature(w, pend):
    """coarse but discriminating identity of a starvation: where the blocked
    requests sit, whether capacity is left, and where unused connections are
    and how they got there"""
    pool = w.pool
    wdbs = sorted({w.cdb[c] for c in pend})
    own_idle = any(len(pool._blocks[d].conn_stack) > 0 for d in wdbs
                   if d in pool._blocks)
    wconn = any(pool._blocks[d].count_conns() > 0 for d in wdbs
                if d in pool._blocks)
    origins = set()
    for d, b in pool._blocks.items():
        if d in wdbs:
            continue
        for c in b.conn_stack:
            if c.id not in w.ever_lent:
                origins.add('fresh')
            elif c.id in w.released_past_starved:
                # release() in Mode D parked it although another block had
                # requests and no connection at that very moment
                origins.add('released-past-a-starved-block')
            else:
                origins.add('released')
    idle = '+'.join(sorted(origins)) or 'none'
    return (f"stuck:capacity={'full' if pool.current_capacity >= w.max else 'free'}"
            f":mode={'D' if getattr(pool, '_is_starving', False) else 'ABC'}"
            f":waiting-block-has-conn={'yes' if wconn else 'no'}"
            f":idle-in-waiting-block={'yes' if own_idle else 'no'}"
            f":idle-elsewhere={idle}"
            f":dbs={'1' if len(w.dbs) == 1 else 'n'}")


INCONCLUSIVE = 'inconclusive'


def _round_budget(w, patience):
    """enough rounds (one to fire a timer, one to run it) for one more than
    GC_FIRINGS garbage-collection periods of ticks"""
    per_gc = int(w.pool._gc_interval / D.pool_module().config.MIN_CONN_TIME_THRESHOLD) + 2
    return 600 + 2 * (GC_FIRINGS + 1) * (per_gc + patience)


# A stall is only declared once the projected state survived this many
# firings of a pending garbage-collection timer (the first may find idle
# connections too young, the second re-arms itself when requests piled up,
# the third sees every time-dependent condition in its final state).
GC_FIRINGS = 3


def fair_completion(w, rnd, max_rounds=None, patience=60):
    """returns None if every request got served, INCONCLUSIVE if the budget
    ran out while the pool was still changing, else (signature, description).

    The pool's own timers are fired strictly in due-time order.  The state is
    compared at the instants the loop is idle and the next timer is about to
    fire; a stall is declared only when it stayed the same over `patience`
    rebalancing ticks AND, as long as a garbage-collection timer is pending
    (GC can discard an idle connection, which frees capacity for a blocked
    request), also over GC_FIRINGS firings of it (a firing counts once
    everything it set off has run and the state is still the same)."""
    if max_rounds is None:
        max_rounds = _round_budget(w, patience)
    last = None
    ticks_same = gcs_same = 0
    fired = None
    hold_age = {}
    for rnd_no in range(max_rounds):
        pend = [c for c in w.clients if w.pc[c] == 'pending']
        if not pend and not w.loop.ready_handles():
            return None
        if w.loop.ready_handles():
            w.loop.run_one()
            continue
        if w.cq:
            w.do(('CompleteConnect', rnd.randint(1, len(w.cq)), True))
            continue
        if w.dq:
            w.do(('CompleteDisconnect', rnd.randint(1, len(w.dq))))
            continue
        holders = [c for c in w.clients if w.pc[c] == 'hold']
        released = False
        for c in holders:
            hold_age[c] = hold_age.get(c, 0) + 1
            # holders release after finite (varied) time
            if hold_age[c] >= 1 + (zlib.crc32(f'{c}{rnd_no // 7}'.encode()) % 3):
                w.do(('Advance', rnd.choice([0.0005, 0.004, 0.02, 0.2])))
                w.do(('Release', c, False))
                hold_age[c] = 0
                released = True
                break
        if released:
            last = None
            continue
        nxt = w._next_timer()
        if nxt is not None:
            # the loop is idle: everything the previous timer set off has run
            pj = w.proj()
            if pj == last and not holders:
                if fired == '_run_gc':
                    gcs_same += 1
                elif fired == '_tick':
                    ticks_same += 1
                gc_pending = any(D._cb_name(h) == '_run_gc'
                                 for h in w.loop.timers())
                if ticks_same >= patience and (
                        not gc_pending or gcs_same >= GC_FIRINGS):
                    pj = json.dumps(pj, sort_keys=True)
                    return (stuck_signature(w, pend),
                            f'requests of {pend} never return: pool state is '
                            f'stationary over {ticks_same} rebalancing ticks '
                            f'and {gcs_same} GC runs with no holder left and '
                            f'{"a" if gc_pending else "no"} GC timer pending; '
                            f'state={pj}')
            else:
                ticks_same = gcs_same = 0
                last = pj
            fired = D._cb_name(nxt)
            w.do(('FireTimer',))
            continue
        if pend:
            return (stuck_signature(w, pend) + ':loop-idle',
                    f'requests of {pend} are blocked and the event loop is '
                    f'idle (no callback, no timer, no pending connect): '
                    f'{json.dumps(w.proj(), sort_keys=True)}')
    pend = [c for c in w.clients if w.pc[c] == 'pending']
    if pend:
        return INCONCLUSIVE   # still changing when the budget ran out - no verdict
    return None


def live_run(cname, seed, steps):
    cfg = CC.CONFIGS[cname]
    rnd = random.Random(seed)
    w = D.World(cfg['dbs'], cfg['clients'], cfg['max'], cfg.get('retries', 1),
                gc_interval=rnd.choice([120.0, 0.05, 1.0]))
    sched = []
    p_fail = rnd.choice([0.0, 0.0, 0.15, 0.4])
    p_discard = rnd.choice([0.0, 0.3])
    eager = rnd.choice([1, 4, 10])
    try:
        for _ in range(steps):
            acts = w.enabled()
            if not acts:
                break
            wts = []
            for a in acts:
                k = a[0]
                wt = 2
                if k == 'RunOne':
                    wt = 2 * eager
                elif k == 'CompleteConnect':
                    wt = 2 if a[2] else 2 * p_fail
                elif k == 'Release':
                    wt = 2 * p_discard if a[2] else 2 * (1 - p_discard)
                elif k == 'FireTimer':
                    wt = 1.0
                wts.append(wt)
            a = rnd.choices(acts, weights=wts)[0]
            if rnd.random() < 0.15:
                w.do(('Advance', rnd.choice([0.001, 0.008, 0.05])))
                sched.append(('Advance', 0))
            sched.append(a)
            w.do(a)
            bad = w.check()
            if bad:
                return sched, ('safety', 'safety: ' + '; '.join(bad)), None
        # waiters whose block's connects failed past the retries must have
        # been told: drain the loop first
        npend_before = [c for c in w.clients if w.pc[c] == 'pending']
        verdict = fair_completion(w, rnd)
        served = len(npend_before)
        if verdict == INCONCLUSIVE:
            return sched, None, -served if served else None
        return sched, verdict, served
    finally:
        w.close()


# Schedules (configuration, seed, prefix length) that exposed genuine defects
# of the pool; they are replayed in every tier so that the repaired ones stay
# repaired whatever VERIF_SEED selects.
REGRESSION = [
    # fixed 73b90d6: request left in a block without connection, below capacity
    ('k2', 2000226, 60), ('k2', 3001750, 60), ('k2', 6002644, 60),
    ('k2', 11000877, 60), ('k2', 99001262, 60), ('k2', 122998761, 60),
    # same history, but an armed GC timer rescues the request after two GC
    # periods (must NOT be reported: the old 60-tick horizon did)
    ('k2', 999991, 60),
    # known Mode D stalls (fresh / released / both kinds of idle connection)
    ('k1', 1000005, 30), ('k1', 5000030, 30), ('k2', 4002384, 60),
    ('k3', 12001293, 90),
]


def _job(args):
    cname, seed0, count, steps = args
    out = []
    served = 0
    nontrivial = 0
    inconclusive = 0
    for i in range(count):
        sched, verdict, n = live_run(cname, seed0 + i, steps)
        if n and n < 0:
            inconclusive += 1     # budget ran out while still changing
        elif n:
            served += n
            nontrivial += 1
        if verdict:
            out.append(dict(cfg=cname, seed=seed0 + i, steps=steps,
                            schedule=[list(a) for a in sched],
                            sig=verdict[0], what=verdict[1]))
    return cname, count, nontrivial, served, inconclusive, out


def replay(path, rep):
    d = json.load(open(path))['replay']
    sched, verdict, n = live_run(d['cfg'], d['seed'], d['steps'])
    print('verdict:', verdict)
    if verdict:
        rep.violation(verdict[0], verdict[1], d)


def run(tier, seed, rep):
    quick = tier == 'quick'
    mc = {}
    for c in (['ConnPool_live.cfg'] if quick else
              ['ConnPool_live.cfg', 'ConnPool_live2.cfg']):
        r = lib.run_tlc('ConnPool', c, timeout=7200, deadlock=False, heap='24g')
        if r.violated:
            raise lib.MachineryError(
                f'{c}: {r.violated} violated in the model:\n{r.output[-3000:]}')
        mc[c] = r.summary()

    plan = {'k1': (4000, 30), 'k2': (3000, 60), 'k3': (1500, 90),
            'k4': (1500, 40)} if quick else \
           {'k1': (120000, 40), 'k2': (80000, 80), 'k3': (40000, 120),
            'k4': (40000, 50)}
    runs = nontriv = served = inconcl = 0
    sigs = {}
    samples = []
    with CC.pool() as mp:
        jobs = []
        for cname, (n, steps) in plan.items():
            per = max(1, n // (lib.NCPU * 2))
            for j in range(0, n, per):
                jobs.append((cname, seed * 999_983 + j, min(per, n - j), steps))
        for cname, cnt, nt, sv, inc, out in mp.imap_unordered(_job, jobs):
            runs += cnt
            inconcl += inc
            nontriv += nt
            served += sv
            for o in out:
                sigs[o['sig']] = sigs.get(o['sig'], 0) + 1
                rep.violation(
                    o['sig'],
                    f"pool config {o['cfg']} (seed {o['seed']}): {o['what'][:400]}",
                    o)
    for cname, rseed, steps in REGRESSION:
        sc, v, n = live_run(cname, rseed, steps)
        runs += 1
        if n and n > 0:
            served += n
            nontriv += 1
        if v:
            sigs[v[0]] = sigs.get(v[0], 0) + 1
            rep.violation(
                v[0], f"pool config {cname} (seed {rseed}): {v[1][:400]}",
                dict(cfg=cname, seed=rseed, steps=steps,
                     schedule=[list(a) for a in sc], sig=v[0], what=v[1]))
    sc, v, n = live_run('k2', seed, 40)
    samples.append(dict(cfg='k2', schedule_prefix=[list(a) for a in sc[:25]],
                        pending_at_end_of_prefix=n,
                        verdict=v[1] if v else 'all served'))
    cov = dict(
        states=sum(v['distinct_states'] for v in mc.values()),
        transitions=sum(v['states_generated'] for v in mc.values()),
        traces_validated_against_impl=runs,
        samples=samples, model_checking=mc,
        evaluations=runs, distinct_nontrivial=nontriv,
        pending_requests_followed_to_completion=served,
        inconclusive_runs=inconcl,
        starvation_signatures=sigs,
        regression_schedules=len(REGRESSION),
        stall_horizon=f'{60} rebalancing ticks and, while a GC timer is '
                      f'pending, {GC_FIRINGS} GC runs without a change of '
                      f'the projected state',
        rule='one case = one seeded schedule prefix on the real Pool followed '
             'by fair completion; non-trivial = at least one acquire was still '
             'pending when the prefix ended')
    return dict(level='model_checking', coverage=cov, assumptions=[
        'model liveness assumes FairPolicy for Mode C quotas; the code-level '
        'runs make no such assumption',
        'bounded liveness: starvation is reported only when the deterministic '
        'pool+driver state has become stationary over 60 ticks and, while a '
        'GC timer is pending, 3 GC runs (every time-dependent condition of '
        'the pool - connection age for GC, Mode D grace period - is monotone '
        'in elapsed time and has reached its final value by then)',
        'fair completion mode: no new requests arrive while pending ones are '
        'followed'])
