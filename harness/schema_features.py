"""Hand-written schema histories that exercise features outside the
SchemaDDL.tla universe (functions, overloaded pointers, nested and multiple
modules, object-level constraints on ancestors, aliases, globals, enums,
annotations, indexes, link properties).  They are fed to the same oracles as
the TLC-generated states (C02 pairs, C10 chains, C03 describe round trips,
C11 declaration orders).  Each chain is a list of SDL documents."""

CHAINS = {
    'overload-later': [
        "module default { abstract type A { property a -> str { default := 'x' } }; "
        "type C extending A; }",
        "module default { abstract type A { property a -> str { default := 'x' } }; "
        "type C extending A { overloaded property a -> str { default := 'x' } }; }",
        "module default { abstract type A { property a -> str { default := 'x' } }; "
        "type C extending A { overloaded property a -> str { default := 'y' } }; }",
        "module default { abstract type A { property a -> str { default := 'x' } }; "
        "type C extending A; }",
    ],
    'function-rename-reuse': [
        "module default { function f(x: int64) -> int64 using (x + 1); }",
        "module default { function g(x: int64) -> int64 using (x + 1); }",
        "module default { function g(x: int64) -> int64 using (x + 1); "
        "function f(x: int64) -> int64 using (x + 2); }",
        "module default { function f(x: int64) -> int64 using (x + 2); "
        "type T { property p -> int64; property q := f(.p) }; }",
    ],
    'nested-modules': [
        "module default {}; module lib { abstract type Base { property name -> str } }; "
        "module lib::geo { type City extending lib::Base { property pop -> int64 } }; ",
        "module default {}; module lib { abstract type Base { property name -> str } }; "
        "module lib::geo { type City extending lib::Base { property pop -> int64 } }; "
        "module lib::geo::deep { scalar type Code extending str; }; "
        "module zoo { type Z { link c -> lib::geo::City; property k -> lib::geo::deep::Code } };",
        "module default {}; module lib { abstract type Base { property name -> str } }; "
        "module lib::geo { type City extending lib::Base; }; "
        "module zoo { type Z { multi link c -> lib::geo::City } };",
    ],
    'cross-module-overload': [
        "module default {}; module base { abstract type A { property x -> str }; "
        "type B extending A; }; module app { type C extending base::B; };",
        "module default {}; module app { type C extending base::B { overloaded property x -> str "
        "{ default := 'c' } } }; module base { abstract type A { property x -> str }; "
        "type B extending A; };",
    ],
    'ancestor-object-constraint': [
        "module default { abstract type Named { required property name -> str; "
        "constraint exclusive on (.name) }; type City extending Named; }",
        "module default { type Asker { link city := (select City filter .name = 'x') }; "
        "type City extending Named; abstract type Named { required property name -> str; "
        "constraint exclusive on (.name) }; }",
        "module default { type Asker { link city := (select City filter .name = 'x'); "
        "property cname := .city.name }; "
        "type City extending Named; abstract type Named { required property name -> str; "
        "constraint exclusive on (.name) }; }",
    ],
    'weak-dependency-cycle': [
        "module default { type Draft { property label -> str }; type Final { property label -> str }; }",
        "module default { type Report { multi property labels := (Draft union Final).label }; "
        "function all_labels() -> set of str using (Report.labels); "
        "type Summary { multi property label := all_labels() }; "
        "type Draft { property label -> str }; type Final { property label -> str }; }",
    ],
    'multiple-inheritance-drop-from-one-parent': [
        "module default { type A { property x -> str; property a -> str }; "
        "type B { property x -> str }; type C extending A, B; type D extending C; }",
        "module default { type A { property a -> str }; "
        "type B { property x -> str }; type C extending A, B; type D extending C; }",
        "module default { type A { property a -> str }; "
        "type B { property x -> str { default := 'b' } }; type C extending A, B; type D extending C; }",
        "module default { type A { property x -> str; property a -> str }; "
        "type B { property x -> str }; type C extending A, B; type D extending C; }",
    ],
    'bases-inserted-at-several-positions': [
        "module default { type X { property x -> str }; "
        "type A { property tag -> str { default := 'from A' } }; "
        "type Y { property tag -> str { default := 'from Y' } }; "
        "type B { property b -> str }; type D extending A, B; }",
        "module default { type X { property x -> str }; "
        "type A { property tag -> str { default := 'from A' } }; "
        "type Y { property tag -> str { default := 'from Y' } }; "
        "type B { property b -> str }; type D extending X, A, Y, B; }",
        "module default { type X { property x -> str }; "
        "type A { property tag -> str { default := 'from A' } }; "
        "type Y { property tag -> str { default := 'from Y' } }; "
        "type B { property b -> str }; type D extending Y, X, B; }",
        "module default { type X { property x -> str }; "
        "type A { property tag -> str { default := 'from A' } }; "
        "type Y { property tag -> str { default := 'from Y' } }; "
        "type B { property b -> str }; type D extending B; }",
    ],
    'misc-objects': [
        "module default { scalar type Color extending enum<R, G>; abstract annotation note; "
        "type U { required property name -> str { annotation note := 'n' }; property color -> Color; "
        "index on (.name); multi link friends -> U { property since -> int64 } }; }",
        "module default { scalar type Color extending enum<R, G, B>; abstract annotation note; "
        "type U { required property name -> str { annotation note := 'n2' }; property color -> Color; "
        "index on (.name); multi link friends -> U { property since -> int64 }; "
        "property nfriends := count(.friends) }; "
        "alias UU := U { upper := str_upper(.name) }; global cur -> str; }",
        "module default { scalar type Color extending enum<R, G, B>; "
        "type U { required property name -> str; multi link friends -> U; }; "
        "global cur -> str { default := 'x' }; }",
    ],
}


def all_schemas():
    seen, out = set(), []
    for ch in CHAINS.values():
        for s in ch:
            if s not in seen:
                seen.add(s)
                out.append(s)
    return out


def pairs():
    out = []
    for ch in CHAINS.values():
        for a, b in zip(ch, ch[1:]):
            out.append((a, b))
            out.append((b, a))
        out.append(('module default {}', ch[-1]))
        out.append((ch[-1], 'module default {}'))
        out.append((ch[0], ch[-1]))
    return out


def chains():
    out = []
    for ch in CHAINS.values():
        out.append(list(ch))
        out.append(list(reversed(ch)))
    return out


# schemas built by plain DDL (independent of the SDL loader), for the
# describe round trip (C03)
DDL_HISTORIES = [
    "create abstract type default::Named { create required property name -> std::str; "
    "create constraint std::exclusive on (.name); }; "
    "create type default::City extending default::Named; "
    "create type default::Asker { create link home := (select default::City filter .name = 'x'); };",
    "create abstract type default::Named { create required property name -> std::str; "
    "create constraint std::exclusive on (.name); }; "
    "create type default::Mid extending default::Named; "
    "create type default::Zed extending default::Mid; "
    "create type default::Aaa { create link z := (select default::Zed filter .name = 'z'); "
    "create property zn := (.z.name); };",
    "create module lib; create module lib::geo; "
    "create abstract type lib::Base { create property name -> std::str; }; "
    "create type lib::geo::City extending lib::Base { create property pop -> std::int64; }; "
    "create type default::Z { create multi link c -> lib::geo::City; };",
    "create function default::f(x: std::int64) -> std::int64 using (x + 1); "
    "create type default::T { create property p -> std::int64; create property q := (default::f(.p)); }; "
    "create alias default::TT := default::T { r := .q + 1 }; "
    "create global default::cur -> std::str;",
    "create abstract type default::A { create property a -> std::str { set default := 'x'; }; }; "
    "create type default::C extending default::A { alter property a { set owned; set default := 'y'; }; };",
]
