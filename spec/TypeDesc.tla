------------------------------ MODULE TypeDesc ------------------------------
(***************************************************************************)
(* C14: binary type descriptors (edb/server/compiler/sertypes.py,          *)
(* docs/reference/reference/protocol/typedesc.rst).                        *)
(*                                                                         *)
(* Part 1 - the universe of result TYPES: terms built from scalar kinds    *)
(* with tuple / named tuple / array / range / object-shape constructors to *)
(* depth Depth; each term is one initial state.  harness/c14.py builds a   *)
(* query with exactly that result type, compiles it for every protocol     *)
(* version and output option, decodes the descriptor with an independent   *)
(* decoder written from the protocol documentation and compares.           *)
(*                                                                         *)
(* Part 2 - the stream discipline, checked by TLC on every decoded stream  *)
(* (events from IOEnv.TRACE_FILE): a descriptor stream is a sequence of    *)
(* blocks; a block may only refer to EARLIER blocks; block ids are unique  *)
(* within a stream; the root is the last non-annotation block; annotation  *)
(* blocks refer to existing blocks.                                        *)
(***************************************************************************)
EXTENDS Naturals, Sequences, FiniteSets, TLC, Json, IOUtils

CONSTANTS Depth, Mode   \* Mode = "terms" | "streams"

\* userscalar2 extends userscalar (a chain of two schema-defined scalars)
Scalars == {"str", "int64", "bool", "float64", "userscalar", "userscalar2", "enum", "uuid", "json"}
\* shapes over one link that differ only in the link properties selected
LinkShapes == {<<"linkshape", v>> : v \in {"with", "without", "both"}}

T0 == {<<"S", s>> : s \in Scalars}
T0x == T0 \cup LinkShapes
Wrap(sub) ==
    {<<"tuple", a, b>> : a \in sub, b \in T0}
    \cup {<<"tuple", a, b>> : a \in T0, b \in sub}
    \cup {<<"named", a, b>> : a \in sub, b \in T0}
    \cup {<<"array", a>> : a \in {x \in sub : x[1] \in {"S", "tuple", "named"}}}
    \cup {<<"range", <<"S", "int64">>>>}
    \cup {<<"shape_computed", a>> : a \in sub}      \* T { c := <a> }
    \cup {<<"shape_multi", a>> : a \in sub}         \* T { multi c := {<a>, <a>} }
    \cup {<<"free", a, b>> : a \in sub, b \in T0}   \* free object { x := a, y := b }
Terms == IF Depth = 0 THEN T0x
         ELSE IF Depth = 1 THEN T0x \cup Wrap(T0x)
         ELSE T0x \cup Wrap(T0x) \cup Wrap(Wrap(T0))

Streams == IF Mode = "streams" THEN JsonDeserialize(IOEnv.TRACE_FILE) ELSE <<>>
\* stream: sequence of blocks [tag, id, refs, anno]  (anno: TRUE for annotation blocks,
\* whose refs[1] is the annotated block)

StreamOK(s) ==
    /\ Len(s) >= 1
    /\ \A i \in 1..Len(s) : \A k \in 1..Len(s[i].refs) :
          \* positions are 0-based on the wire
          s[i].refs[k] + 1 < i
    /\ \A i, j \in 1..Len(s) :
          (i # j /\ ~s[i].anno /\ ~s[j].anno) => s[i].id # s[j].id
    /\ \E r \in 1..Len(s) : ~s[r].anno /\ \A j \in (r + 1)..Len(s) : s[j].anno

VARIABLES term, done
Init == /\ done = FALSE
        /\ IF Mode = "terms" THEN term \in Terms ELSE term = <<"S", "str">>
Next == /\ ~done /\ done' = TRUE /\ UNCHANGED term
        /\ Mode = "streams" =>
              \A i \in 1..Len(Streams) :
                  StreamOK(Streams[i]) \/ PrintT(<<"BADSTREAM", i>>)
        /\ Mode = "streams" => PrintT(<<"STREAMSDONE", Len(Streams)>>)
Spec == Init /\ [][Next]_<<term, done>>

EmitOut == (Mode = "terms") => PrintT("OUT " \o ToString(term))
=============================================================================
