SPECIFICATION Spec
CONSTANTS
    Depth = 2
    Mode = "terms"
INVARIANT EmitOut
CHECK_DEADLOCK FALSE
