------------------------------ MODULE ConnPool ------------------------------
(***************************************************************************)
(* edb/server/connpool/pool.py : class Pool (+ Block, BasePool)            *)
(*                                                                         *)
(* Structured like the implementation: every await-free section of the     *)
(* code is one action, and the asyncio ready queue is part of the state    *)
(* (`ready`, FIFO) so that the model's interleavings are exactly the ones  *)
(* an event loop can produce; the ENVIRONMENT is what is nondeterministic: *)
(* when clients call acquire/release, when connect/disconnect callbacks    *)
(* complete and with which outcome, when timers fire.                      *)
(*                                                                         *)
(* The pool's own bookkeeping is the record `p`; the truth about backend   *)
(* connections (`open`, `closing`, `broken`, which client was handed what) *)
(* is kept separately in `gt` and is only updated by environment actions.  *)
(* C15 = invariants relating the two.                                      *)
(*                                                                         *)
(* The quota POLICY of _tick (rolling averages, float arithmetic) is       *)
(* abstracted to a nondeterministic choice (`ch`), so safety is shown for  *)
(* every policy; the MECHANISM (capacity guards, stack discipline, steal / *)
(* transfer / discard, waiter queue) is transcribed exactly.               *)
(***************************************************************************)
EXTENDS Naturals, Sequences, FiniteSets, TLC, SequencesExt

CONSTANTS
    DBs,        \* database names
    Clients,    \* client identities
    MaxCap,        \* max_capacity
    Retries,    \* config.CONNECT_FAILURE_RETRIES
    TaskIds,    \* 1..k : bound on concurrently live pool tasks
    MaxConnId,  \* connection identities are 1..MaxConnId, recycled once closed
    FailBudget, \* bound on connect failures injected
    MaxOps,     \* bound on client acquire calls
    TrackAct,   \* TRUE: keep the last action in hist.act (for replay); FALSE for liveness
    FairPolicy  \* TRUE: _tick's Mode C policy gives quota >= 1 to a waiting block without connections

NoDB == "-"
NoConn == 0
ConnIds == 1..MaxConnId

VARIABLES
    p,     \* the pool's bookkeeping + asyncio tasks + ready queue
    gt,    \* ground truth about backend connections (environment side)
    hist   \* counters used only by state constraints

vars == <<p, gt, hist>>

-----------------------------------------------------------------------------
Max2(a, b) == IF a > b THEN a ELSE b

EmptyBlk == [ex |-> FALSE, conns |-> {}, pending |-> 0, stack |-> <<>>,
             acq |-> 0, nwait |-> 0, waitq |-> <<>>, quota |-> 0,
             supp |-> FALSE, fails |-> 0]

NoTask == [k |-> "none", db |-> NoDB, conn |-> NoConn, to |-> NoDB,
           st |-> "none", res |-> "none", rconn |-> NoConn]

CountConns(b) == Cardinality(b.conns) + b.pending
OverQuota(b) == IF CountConns(b) > b.quota THEN CountConns(b) - b.quota ELSE 0
ApproxAvail(b) ==
    IF CountConns(b) > b.acq + b.nwait THEN CountConns(b) - b.acq - b.nwait ELSE 0

SeqWithout(s, x) == SelectSeq(s, LAMBDA y: y # x)
MoveToEnd(s, x) == Append(SeqWithout(s, x), x)
MoveToFront(s, x) == <<x>> \o SeqWithout(s, x)
InSeq(s, x) == \E i \in 1..Len(s) : s[i] = x

Fail(q, msg) == IF q.err = "" THEN [q EXCEPT !.err = msg] ELSE q

(* ---- asyncio: create_task = allocate a task, append it to the ready queue *)
FreeTask(q) == CHOOSE i \in TaskIds :
                  q.tasks[i].k = "none" /\ \A j \in TaskIds : q.tasks[j].k = "none" => i <= j
HasFreeTask(q) == \E i \in TaskIds : q.tasks[i].k = "none"

CreateTask(q, rec) ==
    IF ~HasFreeTask(q) THEN Fail(q, "model: out of task ids")
    ELSE LET i == FreeTask(q) IN
         [q EXCEPT !.tasks[i] = rec, !.ready = Append(@, <<"T", i>>)]

(* ---- BasePool helpers ---------------------------------------------------*)
ScheduleNewConn(q, d) ==
    LET q1 == [q EXCEPT !.cur = @ + 1,
                        !.blk[d].pending = @ + 1,
                        !.ord = IF q.starving THEN MoveToEnd(@, d) ELSE @]
    IN CreateTask(q1, [NoTask EXCEPT !.k = "conn", !.db = d, !.st = "new"])

ScheduleDiscard(q, d, c) ==
    CreateTask(q, [NoTask EXCEPT !.k = "disc", !.db = d, !.conn = c, !.st = "new"])

ScheduleTransfer(q, from, c, to) ==
    LET q0 == IF c \in q.inuse THEN Fail(q, "assert: transfer of an in-use connection") ELSE q
        q1 == [q0 EXCEPT !.blk[from].conns = @ \ {c},
                         !.blk[to].pending = @ + 1,
                         !.ord = IF q.starving
                                 THEN MoveToEnd(MoveToEnd(@, to), from) ELSE @]
    IN CreateTask(q1, [NoTask EXCEPT !.k = "xfer", !.db = from, !.conn = c,
                                     !.to = to, !.st = "new"])

(* Block._wakeup_next_waiter *)
WakeNext(q, d) ==
    LET b == q.blk[d] IN
    IF b.waitq = <<>> THEN q
    ELSE LET c == Head(b.waitq) IN
         [q EXCEPT !.blk[d].waitq = Tail(@),
                   !.pc[c] = "woken",
                   !.ready = Append(@, <<"C", c>>)]

(* Block.release *)
BlockRelease(q, d, c) ==
    WakeNext([q EXCEPT !.blk[d].stack = Append(@, c)], d)

(* Pool._release_unused *)
ReleaseUnused(q, d, c) ==
    LET q1 == BlockRelease(q, d, c) IN
    [q1 EXCEPT !.gcReq = @ + 1,
               !.gcT = IF q1.gcReq + 1 = 1 THEN @ + 1 ELSE @]

(* Pool._find_most_starving_block : <<label, db, pool'>> *)
RECURSIVE PopWaitlist(_)
PopWaitlist(q) ==
    IF q.waitlist = <<>> THEN <<NoDB, q>>
    ELSE LET d == Head(q.waitlist)
             q1 == [q EXCEPT !.waitlist = Tail(@)]
         IN IF CountConns(q.blk[d]) > 0 \/ q.blk[d].nwait = 0
            THEN PopWaitlist(q1)
            ELSE <<d, q1>>

\* first block in `ord` with the strictly largest need (need > 0)
StarveVal(q, d, mode) ==
    IF mode = "revive"
    THEN (IF CountConns(q.blk[d]) > 0 \/ q.blk[d].nwait = 0 \/ q.blk[d].supp
          THEN 0 ELSE q.blk[d].nwait)
    ELSE (IF q.blk[d].quota > CountConns(q.blk[d]) /\ ~q.blk[d].supp
          THEN q.blk[d].quota - CountConns(q.blk[d]) ELSE 0)

RECURSIVE ArgMax(_, _, _, _, _)
ArgMax(q, s, best, bestv, mode) ==
    IF s = <<>> THEN best
    ELSE LET d == Head(s)  v == StarveVal(q, d, mode) IN
         IF v > bestv THEN ArgMax(q, Tail(s), d, v, mode)
         ELSE ArgMax(q, Tail(s), best, bestv, mode)

FindMostStarving(q) ==
    LET w == PopWaitlist(q)
        q1 == w[2]
        revive == ArgMax(q1, q1.ord, NoDB, 0, "revive")
        redist == ArgMax(q1, q1.ord, NoDB, 0, "redist")
    IN IF w[1] # NoDB THEN <<"first-conn", w[1], q1>>
       ELSE IF revive # NoDB THEN <<"revive-conn", revive, q1>>
       ELSE IF redist # NoDB THEN <<"redist-conn", redist, q1>>
       ELSE <<"none", NoDB, q1>>

(* Pool._should_free_conn ; rec[d] = "the block's last connect is recent" *)
ShouldFree(q, d, rec) ==
    LET b == q.blk[d]  size == CountConns(b) IN
    IF Len(q.ord) <= 1 THEN FALSE
    ELSE IF ~q.starving /\ size <= b.quota THEN FALSE
    ELSE IF q.starving /\ size = 1 /\ b.nwait > 0 /\ rec[d] THEN FALSE
    ELSE TRUE

(* Pool._maybe_free_into_starving_blocks : <<bool, pool'>> *)
MaybeFreeInto(q, from, c) ==
    LET f == FindMostStarving(q) IN
    IF f[2] = NoDB \/ f[2] = from THEN <<FALSE, f[3]>>
    ELSE <<TRUE, ScheduleTransfer(f[3], from, c, f[2])>>

(* Pool._try_shrink_block *)
RECURSIVE TryShrink(_, _, _)
TryShrink(q, d, rec) ==
    LET b == q.blk[d] IN
    IF OverQuota(b) > 0 /\ ShouldFree(q, d, rec) /\ b.stack # <<>> THEN
        LET c == Head(b.stack)
            q1 == [q EXCEPT !.blk[d].stack = Tail(@)]
            f == FindMostStarving(q1)
        IN IF f[2] # NoDB
           THEN TryShrink(ScheduleTransfer(f[3], d, c, f[2]), d, rec)
           ELSE TryShrink(ScheduleDiscard(f[3], d, c), d, rec)
    ELSE q

(* Pool._try_steal_conn : <<bool, pool'>> *)
RECURSIVE TryStealFrom(_, _, _, _)
TryStealFrom(q, s, for, rec) ==
    IF s = <<>> THEN <<FALSE, q>>
    ELSE LET d == Head(s) IN
         IF d = for \/ ~q.blk[d].ex \/ ~ShouldFree(q, d, rec) \/ q.blk[d].stack = <<>>
         THEN TryStealFrom(q, Tail(s), for, rec)
         ELSE LET c == Head(q.blk[d].stack)
                  q1 == [q EXCEPT !.blk[d].stack = Tail(@)]
              IN <<TRUE, ScheduleTransfer(q1, d, c, for)>>
TryStealConn(q, for, rec) == TryStealFrom(q, q.overq, for, rec)

(* Pool._maybe_rebalance *)
RECURSIVE GrowBlock(_, _)
GrowBlock(q, d) ==
    IF CountConns(q.blk[d]) < q.blk[d].quota /\ q.cur < MaxCap
    THEN GrowBlock(ScheduleNewConn(q, d), d) ELSE q

RECURSIVE RebalanceLoop(_, _, _)
RebalanceLoop(q, s, rec) ==
    IF s = <<>> THEN q
    ELSE LET d == Head(s)  b == q.blk[d]  n == CountConns(b) IN
         IF n > b.quota THEN
              LET q1 == TryShrink(q, d, rec) IN
              RebalanceLoop(IF CountConns(q1.blk[d]) > q1.blk[d].quota
                            THEN [q1 EXCEPT !.overq = Append(@, d)] ELSE q1,
                            Tail(s), rec)
         ELSE IF n < b.quota THEN RebalanceLoop(GrowBlock(q, d), Tail(s), rec)
         ELSE RebalanceLoop(q, Tail(s), rec)

\* stable sort of overq by over-quota, descending (list.sort(reverse=True) is stable)
RECURSIVE InsertDesc(_, _, _)
InsertDesc(q, s, x) ==   \* insert x after every element whose key is >= key(x)
    IF s = <<>> THEN <<x>>
    ELSE IF OverQuota(q.blk[Head(s)]) >= OverQuota(q.blk[x])
         THEN <<Head(s)>> \o InsertDesc(q, Tail(s), x)
         ELSE <<x>> \o s
RECURSIVE StableSortDesc(_, _, _)
StableSortDesc(q, s, acc) ==
    IF s = <<>> THEN acc ELSE StableSortDesc(q, Tail(s), InsertDesc(q, acc, Head(s)))
SortOverq(q) == [q EXCEPT !.overq = StableSortDesc(q, @, <<>>)]

MaybeRebalance(q, rec) ==
    IF q.starving THEN q
    ELSE SortOverq(RebalanceLoop([q EXCEPT !.overq = <<>>], q.ord, rec))

(* Pool._capacity_freed : a slot became available other than through        *)
(* release() - hand it to the blocks that were only queueing for one         *)
RECURSIVE CapacityFreed(_)
CapacityFreed(q) ==
    IF q.cur < MaxCap THEN
        LET f == FindMostStarving(q) IN
        IF f[2] = NoDB THEN f[3] ELSE CapacityFreed(ScheduleNewConn(f[3], f[2]))
    ELSE q

-----------------------------------------------------------------------------
(* ---- client side: Block.try_acquire / Pool.acquire ----------------------*)

(* the part of Pool.acquire after `await self._acquire(dbname)` returned c *)
FinishAcquire(q, cl, d, c) ==
    LET q0 == IF c \in q.inuse THEN Fail(q, "assert: acquired connection already in use") ELSE q IN
    [q0 EXCEPT !.nacq = @ - 1,
               !.blk[d].acq = @ + 1,
               !.inuse = @ \cup {c},
               !.pc[cl] = "hold",
               !.hold[cl] = c]

(* Block.try_acquire entered with the given attempt number *)
TryAcquire(q, cl, d, first) ==
    LET b == q.blk[d] IN
    IF b.stack # <<>> THEN
        \* fast path: pop the TOP of the stack, no context switch
        LET c == b.stack[Len(b.stack)]
            q1 == [q EXCEPT !.blk[d].stack = SubSeq(@, 1, Len(@) - 1)]
        IN FinishAcquire(q1, cl, d, c)
    ELSE
        [q EXCEPT !.blk[d].nwait = @ + 1,
                  !.blk[d].waitq = IF first THEN Append(@, cl) ELSE <<cl>> \o @,
                  !.pc[cl] = "wait"]

MaybeScheduleTick(q) == IF q.nacq > 0 /\ ~q.tick THEN [q EXCEPT !.tick = TRUE] ELSE q

GetBlock(q, d) ==
    IF q.blk[d].ex THEN q
    ELSE [q EXCEPT !.blk[d] = [EmptyBlk EXCEPT !.ex = TRUE, !.quota = 1],
                   !.ord = IF q.starving THEN <<d>> \o @ ELSE Append(@, d)]

(* Pool.acquire up to the first suspension point *)
DoAcquire(q0, cl, d, rec) ==
    LET qa == MaybeScheduleTick([q0 EXCEPT !.nacq = @ + 1, !.cdb[cl] = d])
        qb == GetBlock(qa, d)
        q  == [qb EXCEPT !.blk[d].supp = FALSE]
        b  == q.blk[d]
        n  == CountConns(b)
    IN
    IF q.cur < MaxCap THEN
        LET q1 == IF Len(q.ord) = 1
                  THEN (IF Len(b.stack) <= 1 THEN ScheduleNewConn(q, d) ELSE q)
                  ELSE (IF n = 0 \/ n < b.quota \/ ApproxAvail(b) = 0
                        THEN ScheduleNewConn(q, d) ELSE q)
        IN TryAcquire(q1, cl, d, TRUE)
    ELSE IF n = 0 THEN
        LET s == TryStealConn(q, d, rec)
            q1 == IF s[1] THEN s[2]
                  ELSE [s[2] EXCEPT !.waitlist =
                            IF InSeq(@, d) THEN @ ELSE Append(@, d)]
        IN TryAcquire(q1, cl, d, TRUE)
    ELSE IF n < b.quota THEN
        TryAcquire(TryStealConn(q, d, rec)[2], cl, d, TRUE)
    ELSE TryAcquire(q, cl, d, TRUE)

(* a woken waiter runs again *)
DoResume(q, cl) ==
    LET d == q.cdb[cl]  b == q.blk[d] IN
    IF b.stack # <<>> THEN
        LET c == b.stack[Len(b.stack)]
            q1 == [q EXCEPT !.blk[d].stack = SubSeq(@, 1, Len(@) - 1),
                            !.blk[d].nwait = @ - 1]
        IN FinishAcquire(q1, cl, d, c)
    ELSE
        \* woken up only to find the connection gone: queue again AT THE FRONT
        [q EXCEPT !.blk[d].waitq = <<cl>> \o @, !.pc[cl] = "wait"]

(* a waiter whose future received the connect error *)
DoAborted(q, cl) ==
    LET d == q.cdb[cl]
        q1 == IF q.blk[d].stack # <<>> THEN WakeNext(q, d) ELSE q
    IN [q1 EXCEPT !.blk[d].nwait = @ - 1, !.nacq = @ - 1, !.pc[cl] = "failed"]

(* Pool.release *)
DoRelease(q0, cl, discard, rec) ==
    LET d == q0.cdb[cl]  c == q0.hold[cl]
        q == MaybeScheduleTick(
               [q0 EXCEPT !.blk[d].acq = @ - 1, !.inuse = @ \ {c},
                          !.pc[cl] = "idle", !.hold[cl] = NoConn])
    IN
    IF ShouldFree(q, d, rec) THEN
        LET m == MaybeFreeInto(q, d, c) IN
        IF m[1] THEN m[2]
        ELSE IF discard THEN ScheduleNewConn(ScheduleDiscard(m[2], d, c), d)
        ELSE ReleaseUnused(m[2], d, c)
    ELSE IF discard THEN ScheduleNewConn(ScheduleDiscard(q, d, c), d)
    ELSE ReleaseUnused(q, d, c)

-----------------------------------------------------------------------------
(* ---- pool tasks ---------------------------------------------------------*)
EndTask(q, i) == [q EXCEPT !.tasks[i] = NoTask]

(* _connect: first step calls the connect callback *)
ConnStart(q, i) ==
    [q EXCEPT !.tasks[i].st = "cwait", !.cq = Append(@, i)]

(* _connect resumed with the callback's outcome, for block d *)
ConnFinish(q, i, d) ==
    LET t == q.tasks[i] IN
    IF t.res = "ok" THEN
        LET q1 == [q EXCEPT !.blk[d].fails = 0,
                            !.blk[d].pending = @ - 1,
                            !.blk[d].conns = @ \cup {t.rconn}]
        IN EndTask(BlockRelease(q1, d, t.rconn), i)
    ELSE
        LET q1 == [q EXCEPT !.cur = @ - 1, !.blk[d].fails = @ + 1]
            q2 == IF q1.blk[d].fails > Retries THEN
                      \* Block.abort_waiters, then Pool._capacity_freed
                      CapacityFreed(
                      [q1 EXCEPT !.blk[d].waitq = <<>>,
                                 !.pc = [c \in Clients |->
                                           IF InSeq(q1.blk[d].waitq, c) THEN "aborted" ELSE q1.pc[c]],
                                 !.ready = @ \o [k \in 1..Len(q1.blk[d].waitq) |->
                                                    <<"C", q1.blk[d].waitq[k]>>]])
                  ELSE ScheduleNewConn(q1, d)
        IN EndTask([q2 EXCEPT !.blk[d].pending = @ - 1], i)

(* _discard_conn: first step pops the connection and calls disconnect *)
DiscStart(q, i) ==
    LET t == q.tasks[i]
        q0 == IF t.conn \in q.inuse THEN Fail(q, "assert: discard of an in-use connection") ELSE q
    IN [q0 EXCEPT !.blk[t.db].conns = @ \ {t.conn},
                  !.tasks[i].st = "dwait", !.dq = Append(@, i)]

DiscFinish(q, i) == EndTask(CapacityFreed([q EXCEPT !.cur = @ - 1]), i)

(* _transfer *)
XferStart(q, i) == [q EXCEPT !.tasks[i].st = "dwait", !.dq = Append(@, i)]
\* disconnect returned: cur -1 +1, then _connect(to_block) calls connect
XferMid(q, i) == [q EXCEPT !.tasks[i].st = "cwait", !.cq = Append(@, i)]

RunTask(q, i) ==
    LET t == q.tasks[i] IN
    CASE t.k = "conn" /\ t.st = "new"   -> ConnStart(q, i)
      [] t.k = "conn" /\ t.st = "cwait" -> ConnFinish(q, i, t.db)
      [] t.k = "disc" /\ t.st = "new"   -> DiscStart(q, i)
      [] t.k = "disc" /\ t.st = "dwait" -> DiscFinish(q, i)
      [] t.k = "xfer" /\ t.st = "new"   -> XferStart(q, i)
      [] t.k = "xfer" /\ t.st = "dwait" -> XferMid(q, i)
      [] t.k = "xfer" /\ t.st = "cwait" -> ConnFinish(q, i, t.to)
      [] OTHER -> Fail(q, "model: bad task state")

-----------------------------------------------------------------------------
(* ---- _tick --------------------------------------------------------------*)
(* ch: the abstracted policy: ch.drop (subset of droppable blocks),          *)
(*     ch.starving, ch.quota (Mode C vector), rec (recent connects)          *)

NWaiters(b) == b.nwait + b.acq

Droppable(q, d) == q.blk[d].ex /\ CountConns(q.blk[d]) = 0
                   /\ (NWaiters(q.blk[d]) = 0 \/ q.blk[d].supp)

DropBlocks(q, D) ==
    LET bad == \E d \in D : q.blk[d].nwait > 0
        q1 == [q EXCEPT !.blk = [d \in DBs |-> IF d \in D THEN EmptyBlk ELSE q.blk[d]],
                        !.ord = SelectSeq(@, LAMBDA d: d \notin D),
                        !.waitlist = SelectSeq(@, LAMBDA d: d \notin D),
                        !.overq = SelectSeq(@, LAMBDA d: d \notin D)]
    IN IF bad THEN Fail(q1, "assert: dropping a block that has waiters") ELSE q1

RECURSIVE ModeDQuotas(_, _, _)
ModeDQuotas(q, s, rec) ==
    IF s = <<>> THEN q
    ELSE LET d == Head(s)  n == CountConns(q.blk[d]) IN
         IF n = 1 /\ rec[d]
         THEN ModeDQuotas([q EXCEPT !.blk[d].quota = 1], Tail(s), rec)
         ELSE ModeDQuotas([q EXCEPT !.blk[d].quota = IF n = 0 THEN 1 ELSE 0,
                                    !.ord = MoveToEnd(@, d)], Tail(s), rec)

\* the "just entered Mode D" steal loop; done = TRUE models the early `return`
RECURSIVE StealInner(_, _, _)
StealInner(q, d, rec) ==   \* <<pool', done>>
    IF ~q.blk[d].ex \/ ~ShouldFree(q, d, rec) \/ q.blk[d].stack = <<>> THEN <<q, FALSE>>
    ELSE LET c == Head(q.blk[d].stack)
             q1 == [q EXCEPT !.blk[d].stack = Tail(@)]
             m == MaybeFreeInto(q1, d, c)
         IN IF m[1] THEN StealInner(m[2], d, rec)
            ELSE <<ReleaseUnused(m[2], d, c), TRUE>>

RECURSIVE StealLoop(_, _, _)
StealLoop(q, s, rec) ==
    IF s = <<>> THEN q
    ELSE LET r == StealInner(q, Head(s), rec) IN
         IF r[2] THEN r[1] ELSE StealLoop(r[1], Tail(s), rec)

SumQuota(qv, S) ==
    LET RECURSIVE Sm(_)
        Sm(T) == IF T = {} THEN 0 ELSE LET x == CHOOSE y \in T : TRUE IN qv[x] + Sm(T \ {x})
    IN Sm(S)

DoTick(q0, ch, rec) ==
    LET qa == [q0 EXCEPT !.tick = (q0.nacq > 0)] IN
    IF Len(qa.ord) <= 1 THEN
        IF Len(qa.ord) = 1
        THEN [qa EXCEPT !.starving = FALSE, !.blk[qa.ord[1]].quota = MaxCap]
        ELSE [qa EXCEPT !.starving = FALSE]
    ELSE
        LET \* block.quota = nwaiters for every block, dropped ones go away
            qb == [qa EXCEPT !.blk = [d \in DBs |->
                                 IF qa.blk[d].ex
                                 THEN [qa.blk[d] EXCEPT !.quota = NWaiters(qa.blk[d])]
                                 ELSE qa.blk[d]]]
            was == qb.starving
            qc == DropBlocks([qb EXCEPT !.starving = ch.starving], ch.drop)
            total == LET RECURSIVE S(_)
                         S(s) == IF s = <<>> THEN 0 ELSE NWaiters(qa.blk[Head(s)]) + S(Tail(s))
                     IN S(qa.ord)
        IN
        IF total = 0 THEN qc
        ELSE IF total < MaxCap THEN
            \* Mode B (below capacity): no rebalance, but spare capacity goes to
            \* blocks whose requests have no connection coming (_capacity_freed)
            (IF qc.cur >= MaxCap THEN MaybeRebalance(qc, rec) ELSE CapacityFreed(qc))
        ELSE IF qc.starving THEN
            LET qd == ModeDQuotas(qc, qc.ord, rec) IN
            IF ~was /\ qd.waitlist # <<>> THEN StealLoop(qd, qd.ord, rec) ELSE qd
        ELSE
            MaybeRebalance(
                [qc EXCEPT !.blk = [d \in DBs |->
                     IF qc.blk[d].ex THEN [qc.blk[d] EXCEPT !.quota = ch.quota[d]]
                     ELSE qc.blk[d]]], rec)

(* which policy outcomes the code can produce from state q *)
TickChoices(q) ==
    LET ex == {d \in DBs : q.blk[d].ex}
        live(D) == ex \ D
        need_lo(D) == Cardinality({d \in live(D) : NWaiters(q.blk[d]) > 0 /\ ~q.blk[d].supp})
        need_hi(D) == Cardinality({d \in live(D) : ~q.blk[d].supp})
    IN {ch \in [drop : SUBSET {d \in ex : Droppable(q, d)},
                starving : BOOLEAN,
                quota : [DBs -> 0..MaxCap]] :
          /\ \A d \in ex : (Droppable(q, d) /\ q.blk[d].supp) => d \in ch.drop
          /\ (need_lo(ch.drop) >= MaxCap => ch.starving)
          /\ (need_hi(ch.drop) < MaxCap => ~ch.starving)
          /\ SumQuota(ch.quota, DBs) >= 1
          /\ SumQuota(ch.quota, DBs) <= MaxCap
          /\ (FairPolicy => \A d \in live(ch.drop) :
                  (q.blk[d].nwait > 0 /\ CountConns(q.blk[d]) = 0) => ch.quota[d] >= 1)
          /\ \A d \in DBs : d \notin live(ch.drop) => ch.quota[d] = 0}

(* ---- _run_gc ; k[d] = how many connections at the bottom of d's stack are old *)
RECURSIVE GcBlock(_, _, _)
GcBlock(q, d, n) ==
    IF n = 0 \/ q.blk[d].stack = <<>> THEN q
    ELSE LET c == Head(q.blk[d].stack) IN
         GcBlock(ScheduleDiscard([q EXCEPT !.blk[d].stack = Tail(@)], d, c), d, n - 1)

RECURSIVE GcLoop(_, _, _)
GcLoop(q, s, k) ==
    IF s = <<>> THEN q ELSE GcLoop(GcBlock(q, Head(s), k[Head(s)]), Tail(s), k)

DoGC(q, k) ==
    IF q.starving THEN q      \* re-arms itself: gcT unchanged
    ELSE LET q1 == IF q.gcReq > 1 THEN [q EXCEPT !.gcReq = 1]
                   ELSE [q EXCEPT !.gcReq = 0, !.gcT = @ - 1]
         IN GcLoop(q1, q1.ord, k)

-----------------------------------------------------------------------------
(* ---- the transition system ----------------------------------------------*)
Init ==
    /\ p = [blk |-> [d \in DBs |-> EmptyBlk], ord |-> <<>>, cur |-> 0,
            starving |-> FALSE, waitlist |-> <<>>, overq |-> <<>>, nacq |-> 0,
            tick |-> FALSE, gcReq |-> 0, gcT |-> 0, inuse |-> {},
            tasks |-> [i \in TaskIds |-> NoTask], ready |-> <<>>,
            cq |-> <<>>, dq |-> <<>>,
            pc |-> [c \in Clients |-> "idle"], cdb |-> [c \in Clients |-> NoDB],
            hold |-> [c \in Clients |-> NoConn], err |-> ""]
    /\ gt = [open |-> {}, closing |-> {}, broken |-> {},
             dbof |-> [i \in ConnIds |-> NoDB],
             lent |-> [c \in Clients |-> NoConn]]
    /\ hist = [nfail |-> 0, nops |-> 0, act |-> <<"Init">>]

RecSet == [DBs -> BOOLEAN]

(* a client calls pool.acquire(db): the call is a new asyncio task *)
Act(a) == IF TrackAct THEN a ELSE <<>>

Acquire(c, d) ==
    /\ p.pc[c] \in {"idle", "failed"}
    /\ hist.nops < MaxOps
    /\ p' = [p EXCEPT !.pc[c] = "start", !.cdb[c] = d, !.ready = Append(@, <<"C", c>>)]
    /\ hist' = [hist EXCEPT !.nops = @ + 1, !.act = Act(<<"Acquire", c, d>>)]
    /\ UNCHANGED gt

(* a holder calls pool.release(db, conn, discard=...) *)
Release(c, discard) ==
    /\ p.pc[c] = "hold"
    /\ \E rec \in RecSet : p' = DoRelease(p, c, discard, rec)
    /\ gt' = [gt EXCEPT !.lent[c] = NoConn,
                        !.broken = IF discard THEN @ \cup {p.hold[c]} ELSE @]
    /\ hist' = [hist EXCEPT !.act = Act(<<"Release", c, discard>>)]

(* the i-th pending connect callback completes *)
CompleteConnect(i, ok) ==
    /\ i \in 1..Len(p.cq)
    /\ LET t == p.cq[i]
           d == IF p.tasks[t].k = "xfer" THEN p.tasks[t].to ELSE p.tasks[t].db
           free == ConnIds \ gt.open
           id == CHOOSE n \in free : \A m \in free : n <= m
       IN IF ok THEN
              /\ free # {}
              /\ p' = [p EXCEPT !.cq = SeqWithout(@, t),
                                !.tasks[t].res = "ok", !.tasks[t].rconn = id,
                                !.ready = Append(@, <<"T", t>>)]
              /\ gt' = [gt EXCEPT !.open = @ \cup {id}, !.dbof[id] = d]
              /\ hist' = [hist EXCEPT !.act = Act(<<"CompleteConnect", i, TRUE>>)]
          ELSE
              /\ hist.nfail < FailBudget
              /\ p' = [p EXCEPT !.cq = SeqWithout(@, t),
                                !.tasks[t].res = "fail",
                                !.ready = Append(@, <<"T", t>>)]
              /\ hist' = [hist EXCEPT !.nfail = @ + 1, !.act = Act(<<"CompleteConnect", i, FALSE>>)]
              /\ UNCHANGED gt

(* the i-th pending disconnect callback completes *)
CompleteDisconnect(i) ==
    /\ i \in 1..Len(p.dq)
    /\ LET t == p.dq[i]  c == p.tasks[t].conn IN
       /\ p' = [p EXCEPT !.dq = SeqWithout(@, t), !.ready = Append(@, <<"T", t>>)]
       /\ gt' = [gt EXCEPT !.open = @ \ {c}, !.closing = @ \ {c}, !.broken = @ \ {c}]
    /\ hist' = [hist EXCEPT !.act = Act(<<"CompleteDisconnect", i>>)]

(* the event loop runs the callback at the head of the ready queue *)
RunOne ==
    /\ p.ready # <<>>
    /\ LET h == Head(p.ready)
           q == [p EXCEPT !.ready = Tail(@)]
       IN
       \/ /\ h[1] = "T"
          /\ p' = RunTask(q, h[2])
          /\ gt' = LET t == p.tasks[h[2]] IN
                   \* calling the disconnect callback: the connection is being closed
                   IF (t.k = "disc" \/ t.k = "xfer") /\ t.st = "new"
                   THEN [gt EXCEPT !.closing = @ \cup {t.conn}] ELSE gt
       \/ /\ h[1] = "C"
          /\ LET c == h[2] IN
             \/ /\ p.pc[c] = "start"
                /\ \E rec \in RecSet : p' = DoAcquire(q, c, p.cdb[c], rec)
             \/ /\ p.pc[c] = "woken" /\ p' = DoResume(q, c)
             \/ /\ p.pc[c] = "aborted" /\ p' = DoAborted(q, c)
          /\ gt' = [gt EXCEPT !.lent[h[2]] = p'.hold[h[2]]]
       \/ /\ h[1] = "tick"
          /\ \E ch \in TickChoices(q) : \E rec \in RecSet : p' = DoTick(q, ch, rec)
          /\ UNCHANGED gt
       \/ /\ h[1] = "gc"
          /\ \E k \in [DBs -> 0..MaxCap] : p' = DoGC(q, k)
          /\ UNCHANGED gt
    /\ hist' = [hist EXCEPT !.act = Act(<<"RunOne">>)]

(* timers become due: their callbacks join the ready queue *)
FireTick ==
    /\ p.tick /\ ~InSeq(p.ready, <<"tick", 0>>)
    /\ p' = [p EXCEPT !.ready = Append(@, <<"tick", 0>>)]
    /\ hist' = [hist EXCEPT !.act = Act(<<"FireTick">>)]
    /\ UNCHANGED gt

FireGC ==
    /\ p.gcT > Cardinality({i \in 1..Len(p.ready) : p.ready[i] = <<"gc", 0>>})
    /\ p' = [p EXCEPT !.ready = Append(@, <<"gc", 0>>)]
    /\ hist' = [hist EXCEPT !.act = Act(<<"FireGC">>)]
    /\ UNCHANGED gt

Next ==
    \/ \E c \in Clients, d \in DBs : Acquire(c, d)
    \/ \E c \in Clients, x \in BOOLEAN : Release(c, x)
    \/ \E i \in 1..Len(p.cq), ok \in BOOLEAN : CompleteConnect(i, ok)
    \/ \E i \in 1..Len(p.dq) : CompleteDisconnect(i)
    \/ RunOne \/ FireTick \/ FireGC

Spec == Init /\ [][Next]_vars

(* ---- C16: fairness = the loop keeps running, timers fire, connecting can   *)
(* succeed, backends finish disconnecting, holders release after finite time *)
Fairness ==
    /\ WF_vars(RunOne)
    /\ WF_vars(FireTick)
    /\ WF_vars(FireGC)
    /\ WF_vars(\E i \in 1..Len(p.cq) : CompleteConnect(i, TRUE))
    /\ WF_vars(\E i \in 1..Len(p.dq) : CompleteDisconnect(i))
    /\ \A c \in Clients : WF_vars(\E x \in BOOLEAN : Release(c, x))
LiveSpec == Spec /\ Fairness

Pending(c) == p.pc[c] \in {"start", "wait", "woken", "aborted"}
(* a behaviour that exhausts the model's task identifiers (p.err, a bound of  *)
(* the model and not of the pool) says nothing about the pool: it is exempt   *)
Served == \A c \in Clients :
    Pending(c) ~> (p.pc[c] \in {"hold", "failed"} \/ p.err = "model: out of task ids")

-----------------------------------------------------------------------------
(* ---- C15 ----------------------------------------------------------------*)
Opening == Len(p.cq)          \* connect callbacks invoked and not yet completed
Usable == gt.open \ gt.broken

(* open-or-being-opened never exceeds the maximum *)
CapOK == Cardinality(Usable) + Opening <= MaxCap

(* a connection is lent to at most one acquirer, is open (and not being      *)
(* closed) while lent and belongs to the database it was requested for       *)
LendOK ==
    /\ \A a, b \in Clients : (gt.lent[a] # NoConn /\ gt.lent[a] = gt.lent[b]) => a = b
    /\ \A c \in Clients : gt.lent[c] # NoConn =>
          /\ gt.lent[c] \in gt.open
          /\ gt.lent[c] \notin gt.closing
          /\ gt.dbof[gt.lent[c]] = p.cdb[c]

(* reported usage = true usage; compared when the loop is quiescent (every   *)
(* pool task is parked on a callback, so nothing is "in between")            *)
Quiescent == p.ready = <<>>
ReportOK == Quiescent => p.cur = Cardinality(gt.open) + Opening

(* the pool never exceeds its own limit either *)
CurOK == Quiescent => p.cur <= MaxCap + Cardinality(gt.broken)

(* no assertion of the implementation can fire *)
NoErr == p.err = ""

(* bookkeeping consistency of each block *)
BlockOK == \A d \in DBs : LET b == p.blk[d] IN
    /\ \A i, j \in 1..Len(b.stack) : b.stack[i] = b.stack[j] => i = j
    /\ \A i \in 1..Len(b.stack) : b.stack[i] \in b.conns /\ b.stack[i] \notin p.inuse
    /\ b.acq = Cardinality({c \in Clients : p.pc[c] = "hold" /\ p.cdb[c] = d})
    /\ b.nwait = Cardinality({c \in Clients : p.pc[c] \in {"wait", "woken", "aborted"} /\ p.cdb[c] = d})
    /\ \A c \in Clients : InSeq(b.waitq, c) <=> (p.pc[c] = "wait" /\ p.cdb[c] = d)
    /\ (~b.ex) => b = EmptyBlk

(* a waiter is never stranded next to an idle connection *)
NoLostWakeup == Quiescent =>
    \A d \in DBs : ~(p.blk[d].waitq # <<>> /\ p.blk[d].stack # <<>>)

TypeOK ==
    /\ p.cur \in Nat /\ p.nacq \in Nat /\ p.gcReq \in Nat /\ p.gcT \in Nat
    /\ \A d \in DBs : p.blk[d].pending \in Nat /\ p.blk[d].nwait \in Nat /\ p.blk[d].acq \in Nat

(* bounds for exhaustive checking *)
Bound ==
    /\ p.gcT <= 2
    /\ p.err # "model: out of task ids"

(* the last action is history only: hide it from the fingerprint *)
View == <<p, gt, hist.nfail, hist.nops>>

(* TLC evaluates invariants also on states the constraint discards: guard them *)
InModel == p.err # "model: out of task ids"
I_CapOK == InModel => CapOK
I_LendOK == InModel => LendOK
I_ReportOK == InModel => ReportOK
I_CurOK == InModel => CurOK
I_NoErr == InModel => NoErr
I_BlockOK == InModel => BlockOK
I_NoLostWakeup == InModel => NoLostWakeup

(* projection compared with the implementation after every step *)
Proj == [cur |-> p.cur,
         starving |-> p.starving,
         blocks |-> [d \in DBs |-> [ex |-> p.blk[d].ex,
                                   nconns |-> Cardinality(p.blk[d].conns),
                                   npending |-> p.blk[d].pending,
                                   nwaiters |-> p.blk[d].nwait,
                                   quota |-> p.blk[d].quota,
                                   stack |-> p.blk[d].stack,
                                   acq |-> p.blk[d].acq]],
         hold |-> p.hold,
         nready |-> Len(p.ready),
         ncq |-> Len(p.cq), ndq |-> Len(p.dq)]
=============================================================================
