SPECIFICATION Spec
CONSTANTS
  Level = 3
  NB = 2
  WantShow = FALSE
INVARIANT Judge
CHECK_DEADLOCK FALSE
