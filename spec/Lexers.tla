------------------------------- MODULE Lexers -------------------------------
(***************************************************************************)
(* PostgreSQL's lexical rules for the quoted forms edgedb emits            *)
(* (standard_conforming_strings = on), as recursive operators over         *)
(* sequences of code points:                                               *)
(*    '...'        string constant; '' is one quote; backslash is ordinary *)
(*    E'...'       escape string constant (backslash escapes)              *)
(*    "..."        delimited identifier; "" is one double quote; no NUL    *)
(*    word         bare identifier / keyword, folded to lower case         *)
(*    $tag$...$tag$ dollar-quoted string constant                          *)
(*    -- comment,  /* comment */ (nesting)                                 *)
(* from the "Lexical Structure" chapter of the PostgreSQL manual.          *)
(*                                                                         *)
(* C18 (SQL side) is checked as trace validation: the harness records      *)
(* events <<kind, input, output>> by calling the real quoting functions of *)
(* edb.pgsql on every string of the adversarial universe; each event must  *)
(* satisfy Accept: the output, placed between sentinel tokens, lexes as    *)
(* exactly ONE token of the expected kind with the input as value, and     *)
(* the sentinels are still there.  Verdict lines: "BAD" chunk index why.   *)
(***************************************************************************)
EXTENDS Naturals, Sequences, TLC, Json, IOUtils

Events == JsonDeserialize(IOEnv.TRACE_FILE)     \* seq of [k, in, out]
CONSTANT NChunks

\* code points
SQ == 39  DQ == 34  BS == 92  DOLLAR == 36  NL == 10  CR == 13  SP == 32
DASH == 45  SLASH == 47  STAR == 42  SEMI == 59  DOT == 46  COLON == 58
UND == 95  LBR == 91 RBR == 93 LPAR == 40 RPAR == 41 PCT == 37

IsSpace(c) == c \in {SP, 9, NL, CR, 12, 11}
IsDigit(c) == c >= 48 /\ c <= 57
IsUpper(c) == c >= 65 /\ c <= 90
IsLower(c) == c >= 97 /\ c <= 122
\* identifier start: letters (incl. non-ASCII) and underscore
IsIdStart(c) == IsUpper(c) \/ IsLower(c) \/ c = UND \/ c >= 128
IsIdCont(c) == IsIdStart(c) \/ IsDigit(c) \/ c = DOLLAR
Lower(c) == IF IsUpper(c) THEN c + 32 ELSE c

At(s, i) == IF i <= Len(s) THEN s[i] ELSE 0

(* '...' from the opening quote at i : <<ok, value, next>> *)
RECURSIVE StrBody(_, _, _, _)
StrBody(s, i, q, acc) ==
    IF i > Len(s) THEN <<FALSE, acc, i>>                 \* unterminated
    ELSE IF s[i] = q THEN
        IF At(s, i + 1) = q THEN StrBody(s, i + 2, q, Append(acc, q))
        ELSE <<TRUE, acc, i + 1>>
    ELSE StrBody(s, i + 1, q, Append(acc, s[i]))

(* E'...' body: backslash escapes (subset: \\ \' \n \r \t \b \f, other \c = c) *)
RECURSIVE EStrBody(_, _, _)
EStrBody(s, i, acc) ==
    IF i > Len(s) THEN <<FALSE, acc, i>>
    ELSE IF s[i] = BS THEN
        IF i + 1 > Len(s) THEN <<FALSE, acc, i>>
        ELSE LET c == s[i + 1]
                 v == CASE c = 110 -> NL [] c = 114 -> CR [] c = 116 -> 9
                        [] c = 98 -> 8 [] c = 102 -> 12 [] OTHER -> c
             IN EStrBody(s, i + 2, Append(acc, v))
    ELSE IF s[i] = SQ THEN
        IF At(s, i + 1) = SQ THEN EStrBody(s, i + 2, Append(acc, SQ))
        ELSE <<TRUE, acc, i + 1>>
    ELSE EStrBody(s, i + 1, Append(acc, s[i]))

RECURSIVE WordEnd(_, _)
WordEnd(s, i) == IF i <= Len(s) /\ IsIdCont(s[i]) THEN WordEnd(s, i + 1) ELSE i

RECURSIVE DigitsEnd(_, _)
DigitsEnd(s, i) == IF i <= Len(s) /\ IsDigit(s[i]) THEN DigitsEnd(s, i + 1) ELSE i

RECURSIVE LineEnd(_, _)
LineEnd(s, i) == IF i <= Len(s) /\ s[i] # NL THEN LineEnd(s, i + 1) ELSE i

RECURSIVE BlockCommentEnd(_, _, _)
BlockCommentEnd(s, i, depth) ==      \* returns 0 if unterminated
    IF i > Len(s) THEN 0
    ELSE IF s[i] = STAR /\ At(s, i + 1) = SLASH THEN
        IF depth = 1 THEN i + 2 ELSE BlockCommentEnd(s, i + 2, depth - 1)
    ELSE IF s[i] = SLASH /\ At(s, i + 1) = STAR THEN BlockCommentEnd(s, i + 2, depth + 1)
    ELSE BlockCommentEnd(s, i + 1, depth)

\* does s have t at position i ?
RECURSIVE HasAt(_, _, _, _)
HasAt(s, i, t, k) ==
    IF k > Len(t) THEN TRUE
    ELSE IF At(s, i + k - 1) # t[k] THEN FALSE ELSE HasAt(s, i, t, k + 1)

RECURSIVE FindFrom(_, _, _)
FindFrom(s, i, t) ==     \* first position >= i where t occurs, 0 if none
    IF i + Len(t) - 1 > Len(s) THEN 0
    ELSE IF HasAt(s, i, t, 1) THEN i ELSE FindFrom(s, i + 1, t)

\* $tag$ opener at i: returns the tag (including both $) or <<>> if not an opener
DollarTag(s, i) ==
    LET e == IF i + 1 <= Len(s) /\ (IsIdStart(s[i + 1]) /\ s[i + 1] # DOLLAR)
             THEN WordEnd(s, i + 1) ELSE i + 1
        \* tag chars cannot contain $ : stop WordEnd at the first $
        RECURSIVE TagEnd(_)
        TagEnd(j) == IF j <= Len(s) /\ IsIdCont(s[j]) /\ s[j] # DOLLAR THEN TagEnd(j + 1) ELSE j
        te == IF At(s, i + 1) = DOLLAR THEN i + 1
              ELSE IF IsIdStart(At(s, i + 1)) THEN TagEnd(i + 1) ELSE 0
    IN IF te # 0 /\ At(s, te) = DOLLAR THEN SubSeq(s, i, te) ELSE <<>>

(* the tokenizer: sequence of <<kind, value>> ; kind "err" ends it *)
RECURSIVE Lex(_, _, _)
Lex(s, i, acc) ==
    IF i > Len(s) THEN acc
    ELSE LET c == s[i] IN
    IF IsSpace(c) THEN Lex(s, i + 1, acc)
    ELSE IF c = DASH /\ At(s, i + 1) = DASH THEN Lex(s, LineEnd(s, i), acc)
    ELSE IF c = SLASH /\ At(s, i + 1) = STAR THEN
        LET e == BlockCommentEnd(s, i + 2, 1) IN
        IF e = 0 THEN Append(acc, <<"err", <<1>>>>) ELSE Lex(s, e, acc)
    ELSE IF c = SQ THEN
        LET r == StrBody(s, i + 1, SQ, <<>>) IN
        IF r[1] THEN Lex(s, r[3], Append(acc, <<"str", r[2]>>))
        ELSE Append(acc, <<"err", <<2>>>>)
    ELSE IF (c = 69 \/ c = 101) /\ At(s, i + 1) = SQ THEN          \* E'...'
        LET r == EStrBody(s, i + 2, <<>>) IN
        IF r[1] THEN Lex(s, r[3], Append(acc, <<"str", r[2]>>))
        ELSE Append(acc, <<"err", <<3>>>>)
    ELSE IF c = DQ THEN
        LET r == StrBody(s, i + 1, DQ, <<>>) IN
        IF ~r[1] THEN Append(acc, <<"err", <<4>>>>)
        ELSE IF r[2] = <<>> THEN Append(acc, <<"err", <<5>>>>)
        ELSE Lex(s, r[3], Append(acc, <<"qident", r[2]>>))
    ELSE IF c = DOLLAR /\ DollarTag(s, i) # <<>> THEN
        LET tag == DollarTag(s, i)
            e == FindFrom(s, i + Len(tag), tag)
        IN IF e = 0 THEN Append(acc, <<"err", <<6>>>>)
           ELSE Lex(s, e + Len(tag),
                    Append(acc, <<"str", SubSeq(s, i + Len(tag), e - 1)>>))
    ELSE IF c = DOLLAR /\ IsDigit(At(s, i + 1)) THEN
        LET e == DigitsEnd(s, i + 1) IN
        Lex(s, e, Append(acc, <<"param", SubSeq(s, i + 1, e - 1)>>))
    ELSE IF IsIdStart(c) THEN
        LET e == WordEnd(s, i + 1) IN
        Lex(s, e, Append(acc, <<"word", [k \in 1..(e - i) |-> Lower(s[i + k - 1])]>>))
    ELSE IF IsDigit(c) THEN
        LET e == DigitsEnd(s, i) IN Lex(s, e, Append(acc, <<"num", SubSeq(s, i, e - 1)>>))
    ELSE IF c = COLON /\ At(s, i + 1) = COLON THEN Lex(s, i + 2, Append(acc, <<"op", <<COLON, COLON>>>>))
    ELSE IF c = 124 /\ At(s, i + 1) = 124 THEN Lex(s, i + 2, Append(acc, <<"op", <<124, 124>>>>))
    ELSE IF c = 0 THEN Append(acc, <<"err", <<7>>>>)
    ELSE Lex(s, i + 1, Append(acc, <<"op", <<c>>>>))

Tokens(s) == Lex(s, 1, <<>>)

-----------------------------------------------------------------------------
(* Accept: what each kind of recorded event must satisfy.                   *)
(* The harness wraps every output as  SENTA <out> ; SENTB  so the expected   *)
(* token stream is  word(senta) TOKEN... op(;) word(sentb)                   *)
SentA == <<"word", <<115, 101, 110, 116, 97>>>>
SentB == <<"word", <<115, 101, 110, 116, 98>>>>
Semi == <<"op", <<SEMI>>>>

Wrapped(toks, inner) ==
    /\ Len(toks) = Len(inner) + 3
    /\ toks[1] = SentA
    /\ toks[Len(toks)] = SentB
    /\ toks[Len(toks) - 1] = Semi
    /\ \A k \in 1..Len(inner) : toks[k + 1] = inner[k]

HexVal(c) == IF IsDigit(c) THEN c - 48 ELSE IF c >= 97 /\ c <= 102 THEN c - 87
             ELSE IF c >= 65 /\ c <= 70 THEN c - 55 ELSE 99
\* decode the VALUE of a bytea string constant in hex format: \x followed by hex pairs
ByteaDecode(v) ==
    IF v = <<>> THEN <<TRUE, <<>>>>
    ELSE IF Len(v) < 2 \/ v[1] # BS \/ v[2] # 120 \/ (Len(v) % 2) # 0 THEN <<FALSE, <<>>>>
    ELSE LET n == (Len(v) - 2) \div 2
             bytes == [k \in 1..n |-> HexVal(v[2 * k + 1]) * 16 + HexVal(v[2 * k + 2])]
         IN <<\A k \in 1..n : HexVal(v[2 * k + 1]) < 16 /\ HexVal(v[2 * k + 2]) < 16, bytes>>

Bytea == <<98, 121, 116, 101, 97>>

Why(e) ==
    LET toks == Tokens(e.out) IN
    CASE e.k = "pg_literal" ->
            IF Wrapped(toks, <<<<"str", e.in>>>>) THEN "ok" ELSE "not one string constant with the original value"
      [] e.k = "pg_ident" ->
            \* either one delimited identifier with the value, or a bare word
            \* that is already lower case and equals the value
            IF Wrapped(toks, <<<<"qident", e.in>>>>) \/ Wrapped(toks, <<<<"word", e.in>>>>)
            THEN "ok" ELSE "not one identifier with the original value"
      [] e.k = "pg_bytea" ->
            IF Len(toks) = 6 /\ toks[1] = SentA /\ toks[2][1] = "str"
               /\ toks[3] = <<"op", <<COLON, COLON>>>> /\ toks[4] = <<"word", Bytea>>
               /\ toks[5] = Semi /\ toks[6] = SentB
               /\ ByteaDecode(toks[2][2]) = <<TRUE, e.in>>
            THEN "ok" ELSE "not one bytea constant with the original value"
      [] e.k = "pg_tokens" ->
            \* generic: the output must lex to exactly the recorded token values
            IF Wrapped(toks, e.in) THEN "ok" ELSE "token stream differs"
      [] e.k = "pg_exec" ->
            \* a PL/pgSQL  EXECUTE piece || piece ... ;  whose string pieces,
            \* concatenated, must lex to  ALTER TABLE <schema> . <table> ...
            LET t2 == Tokens(e.out)
                n == Len(t2)
                shape == /\ n >= 3 /\ (n % 2) = 1
                         /\ t2[1] = <<"word", <<101, 120, 101, 99, 117, 116, 101>>>>
                         /\ t2[n] = Semi
                         /\ \A k \in 2..(n - 1) :
                               IF (k % 2) = 0 THEN t2[k][1] \in {"str", "word"}
                               ELSE t2[k] = <<"op", <<124, 124>>>>
                RECURSIVE Cat(_)
                Cat(k) == IF k > n - 1 THEN <<>>
                          ELSE (IF t2[k][1] = "str" THEN t2[k][2] ELSE <<120>>) \o <<SP>> \o Cat(k + 2)
                inner == IF shape THEN Tokens(Cat(2)) ELSE <<>>
                IsName(tok, v) == tok = <<"qident", v>> \/ tok = <<"word", v>>
            IN IF ~shape THEN "EXECUTE argument is not a concatenation of string constants"
               ELSE IF Len(inner) >= 5
                       /\ inner[1] = <<"word", <<97, 108, 116, 101, 114>>>>
                       /\ inner[2] = <<"word", <<116, 97, 98, 108, 101>>>>
                       /\ IsName(inner[3], e.in[1]) /\ inner[4] = <<"op", <<DOT>>>>
                       /\ IsName(inner[5], e.in[2])
               THEN "ok" ELSE "the statement EXECUTE receives does not name the table as one identifier"
      [] OTHER -> "unknown event kind"

VARIABLES chunk, done
Init == chunk \in 1..NChunks /\ done = FALSE
Mine(i) == (i % NChunks) + 1 = chunk
Next ==
    /\ ~done /\ done' = TRUE /\ UNCHANGED chunk
    /\ \A i \in 1..Len(Events) :
          Mine(i) => LET w == Why(Events[i]) IN
                     (w = "ok" \/ PrintT(<<"BAD", i, w>>))
    /\ PrintT(<<"CHUNKDONE", chunk>>)
Spec == Init /\ [][Next]_<<chunk, done>>
=============================================================================
