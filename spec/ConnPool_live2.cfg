\* C16 liveness in the model, one database (Modes A/B of the pool): every fair behaviour
\* serves every request.  No state constraint: the bounds are guards of the actions.
\* (With two databases the model - like the code, see known_findings.json - admits a
\* starvation in Mode D; ConnPool_live_modeD.cfg documents that counterexample.)
\* MaxOps = 3: with 4 operations the instance has 35M states (over an hour) and
\* reaches the model's own task-id bound.
SPECIFICATION LiveSpec
CONSTANTS
    DBs = {"d1"}
    Clients = {"c1", "c2"}
    MaxCap = 2
    Retries = 1
    TaskIds = {1, 2, 3, 4}
    MaxConnId = 3
    FailBudget = 1
    MaxOps = 3
    TrackAct = FALSE
    FairPolicy = TRUE
INVARIANT I_NoLostWakeup
INVARIANT I_NoErr
PROPERTY Served
CHECK_DEADLOCK FALSE
