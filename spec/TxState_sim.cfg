SPECIFICATION Spec
CONSTANTS
    SpNames = {"a", "b"}
    Aliases = {"m1", "m2"}
    Settings = {1, 2}
    MaxLen = 12
    Emit = TRUE
    Core = FALSE
INVARIANT TypeOK
INVARIANT FramesOK
INVARIANT EmitOut
PROPERTY RollbackRestores
CHECK_DEADLOCK FALSE
