SPECIFICATION Spec
CONSTANTS
    Scalars = {"A", "B"}
    Multis = {"M"}
    Objs = {"O"}
    NVals = 2
    Elems = {"a", "b"}
    Keys = {"k1", "k2"}
    Payloads = {"x", "y"}
    Scopes <- ScopeSeq
    ObjScopes = {"database", "instance"}
    MaxLen = 10
    Emit = TRUE
INVARIANT TypeOK
INVARIANT ExclusiveOK
INVARIANT EffOK
INVARIANT EmitOut
PROPERTY Local
CHECK_DEADLOCK FALSE
