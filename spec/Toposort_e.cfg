\* (e) 3 nodes, hard / weak / both (same key in deps and weak_deps), <= 4 edges
SPECIFICATION Spec
CONSTANTS
    N = 3
    EdgeKinds = {"h", "w", "b"}
    MaxEdges = 4
    DangKinds = {}
    Emit = TRUE
INVARIANT TypeOK
INVARIANT SetsOK
INVARIANT PermOK
INVARIANT HardOK
INVARIANT CycleIff
INVARIANT WeakOK
INVARIANT CtrlOK
INVARIANT UnresOK
INVARIANT UnresOK2
INVARIANT CleanOK
INVARIANT EmitOut
PROPERTY Terminates
CHECK_DEADLOCK FALSE
