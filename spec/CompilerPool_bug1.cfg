SPECIFICATION Spec
CONSTANTS
    Workers = {"w1"}
    DBs = {"a"}
    NVals = 2
    Falsy = {2}
    MaxStates = 3
    OrBug = TRUE
    EarlyCommit = FALSE
    DirtyBug = FALSE
    FieldVals <- FV_all
    Sequential = FALSE
CONSTRAINT Bound
VIEW View
INVARIANT UsesSupplied
INVARIANT TxStateRight
INVARIANT BeliefSound
CHECK_DEADLOCK FALSE
