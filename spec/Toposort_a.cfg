\* (a) 3 nodes, every ordered pair in {none, hard, weak}: 19683 graphs x rev
SPECIFICATION Spec
CONSTANTS
    N = 3
    EdgeKinds = {"h", "w"}
    MaxEdges = 9
    DangKinds = {}
    Emit = TRUE
INVARIANT TypeOK
INVARIANT SetsOK
INVARIANT PermOK
INVARIANT HardOK
INVARIANT CycleIff
INVARIANT WeakOK
INVARIANT CtrlOK
INVARIANT UnresOK
INVARIANT UnresOK2
INVARIANT CleanOK
INVARIANT EmitOut
PROPERTY Terminates
CHECK_DEADLOCK FALSE
