\* Documents the known finding: two databases, capacity 1 (Mode D).  TLC reports a
\* violation of Served here: a fresh or released connection sits idle in one block while the
\* other block's waiter is never served.  NOT part of the passing checks; c16.py runs it in the
\* thorough tier only to confirm that the counterexample is still the known one.
SPECIFICATION LiveSpec
CONSTANTS
    DBs = {"d1", "d2"}
    Clients = {"c1", "c2"}
    MaxCap = 1
    Retries = 1
    TaskIds = {1, 2, 3, 4}
    MaxConnId = 3
    FailBudget = 0
    MaxOps = 3
    TrackAct = FALSE
    FairPolicy = TRUE
PROPERTY Served
CHECK_DEADLOCK FALSE
