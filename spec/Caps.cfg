SPECIFICATION Spec
INVARIANT ReadOnlyOK
INVARIANT EmitOut
CHECK_DEADLOCK FALSE
