SPECIFICATION Spec
INVARIANT Balanced
INVARIANT Report
CHECK_DEADLOCK FALSE
