SPECIFICATION Spec
CONSTANTS
    Workers = {"w1", "w2"}
    DBs = {"a"}
    NVals = 2
    Falsy = {2}
    MaxStates = 3
    OrBug = FALSE
    EarlyCommit = FALSE
    DirtyBug = FALSE
    FieldVals <- FV_us
    Sequential = FALSE
CONSTRAINT Bound
VIEW View
INVARIANT UsesSupplied
INVARIANT TxStateRight
INVARIANT BeliefSound
CHECK_DEADLOCK FALSE
