SPECIFICATION Spec
CONSTANT Depth = 1
INVARIANT EmitOut
CHECK_DEADLOCK FALSE
