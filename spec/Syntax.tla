------------------------------- MODULE Syntax -------------------------------
(***************************************************************************)
(* C01: the universe of expression SHAPES for the print / re-parse round   *)
(* trip: every operator of the EdgeQL expression grammar                   *)
(* (edb/edgeql/parser/grammar/expressions.py, precedence.py) in every      *)
(* child position of every other operator, to nesting depth Depth.         *)
(* A tree is a leaf or <<op, child, ...>>.  Each tree is one initial       *)
(* state; harness/c01.py writes it FULLY PARENTHESISED (an unambiguous     *)
(* denotation that does not depend on any precedence table), parses it     *)
(* with the real grammar, prints it with the real code generator, parses   *)
(* the printed text again and compares the two syntax trees and the two    *)
(* printed texts.                                                          *)
(***************************************************************************)
EXTENDS Naturals, Sequences, FiniteSets, TLC, SequencesExt

CONSTANTS Depth

Binary == {"OR", "AND", "=", "!=", "?=", "?!=", "<", ">", "<=", ">=",
           "IN", "NOT IN", "LIKE", "ILIKE", "NOT LIKE", "NOT ILIKE",
           "??", "UNION", "EXCEPT", "INTERSECT", "+", "-", "++", "*", "/",
           "//", "%", "^"}
Unary == {"NEG", "POS", "NOT", "EXISTS", "DISTINCT", "CAST", "INDEX", "SLICE",
          "PTR", "BACKPTR", "ISTYPE", "ISNOTTYPE", "TYPEINTERSECT", "DETACHED",
          "ARRAY", "TUPLE1", "SET1", "SHAPE", "FILTER", "ORDER", "LIMIT", "CALL",
          "INTROSPECT?"} \ {"INTROSPECT?"}
Ternary == {"IFELSE", "SLICE2", "FOR"}
Leaves == {<<"L", v>> : v \in {"x", "1", "'s'", "$p"}}
LX == <<"L", "x">>
L1 == <<"L", "1">>

\* depth 1: every operator over leaves
T1 == Leaves
      \cup {<<o, a>> : o \in Unary, a \in Leaves}
      \cup {<<o, a, b>> : o \in Binary, a \in Leaves, b \in Leaves}
      \cup {<<o, a, LX, L1>> : o \in Ternary, a \in Leaves}

\* one more level: every operator with ONE child taken from `sub` in every
\* child position, the other children leaves (all pairs / chains of adjacent
\* operators in every position; cubic, not quartic)
Over(sub) ==
    {<<o, a>> : o \in Unary, a \in sub}
    \cup {<<o, a, LX>> : o \in Binary, a \in sub}
    \cup {<<o, LX, a>> : o \in Binary, a \in sub}
    \cup {<<o, a, LX, L1>> : o \in Ternary, a \in sub}
    \cup {<<o, LX, a, L1>> : o \in Ternary, a \in sub}
    \cup {<<o, LX, L1, a>> : o \in Ternary, a \in sub}

\* chains through binary operators only, for depth 3
BinOver(sub) ==
    {<<o, a, LX>> : o \in Binary, a \in sub} \cup {<<o, LX, a>> : o \in Binary, a \in sub}
B1 == {<<o, LX, L1>> : o \in Binary}

Universe == IF Depth = 1 THEN T1
            ELSE IF Depth = 2 THEN T1 \cup Over(T1)
            ELSE BinOver(BinOver(B1)) \cup Over(Over({<<o, LX>> : o \in Unary}))

\* start -> 64 buckets -> the trees of each bucket, so that TLC's workers
\* enumerate (and print) the universe in parallel; every tree is one state
VARIABLE tree
NBuckets == 16
Init == tree = <<"start">>
Next == \/ /\ tree = <<"start">>
           /\ \E k \in 1..NBuckets : tree' = <<"bucket", k>>
        \/ /\ tree[1] = "bucket"
           /\ LET u == SetToSeq(Universe) IN      \* evaluated once per bucket
              \E i \in {j \in 1..Len(u) : j % NBuckets = tree[2] - 1} : tree' = u[i]
Spec == Init /\ [][Next]_tree

EmitOut == tree[1] \in {"start", "bucket"} \/ PrintT("OUT " \o ToString(tree))
=============================================================================
