------------------------------ MODULE EdgeQLSem ------------------------------
(***************************************************************************)
(* C06 / C12: a reference semantics for a fragment of EdgeQL.              *)
(*                                                                         *)
(* The fragment is closed under the operators through which cardinality,   *)
(* multiplicity and result types are inferred: set literals, type roots    *)
(* with inheritance, pointer traversal (required / optional / multi,       *)
(* property / link), filters on exclusive and non-exclusive properties,    *)
(* DISTINCT, UNION, ??, IF/ELSE, tuples and element-wise operators         *)
(* (cartesian product), aggregates, LIMIT (literal and computed), FOR,     *)
(* type intersection, arrays, numeric casts and the implicit-cast lattice. *)
(*                                                                         *)
(*   Eval(t, env, db)  - the bag (sequence) of typed values term t yields  *)
(*                       on database db                                    *)
(*   TypeOf(t, vt)     - the static type of t (<<"none">> = ill-typed)     *)
(*   DBs               - a family of databases that satisfy the schema's   *)
(*                       constraints (required, single, exclusive),        *)
(*                       including empty types and empty pointers          *)
(*                                                                         *)
(* One initial state per well-typed term of the universe.  For each term   *)
(* TLC evaluates it on every database, checks the model-level laws below   *)
(* (type soundness of Eval, algebraic laws of the operators) and prints    *)
(* the observation: sizes seen, whether duplicates were seen, static type. *)
(* harness/c06.py renders the term as EdgeQL, compiles it with the real    *)
(* compiler and compares the reported cardinality / multiplicity / type    *)
(* with the observation; the same terms are evaluated by the repository's  *)
(* own edb/tools/toy_eval_model.py on the same databases and must agree    *)
(* with Eval (conformance of this specification).                          *)
(*                                                                         *)
(* Variables bind explicitly (FOR x, shape subject); every type root is    *)
(* rendered DETACHED, so EdgeQL's implicit path factoring never applies    *)
(* and the bag semantics below is the whole story.                         *)
(***************************************************************************)
EXTENDS Naturals, Integers, Sequences, FiniteSets, TLC, SequencesExt

CONSTANTS Level,      \* which universe: 1 = depth 1, 2 = depth 2, 3 = wide depth 2
          NB,         \* databases have 0..NB objects of type B
          WantShow    \* print the full results on the ShowSeq databases

(* ------------------------------------------------------------ schema ---- *)
ATypes == {"A", "A2", "A3"}                 \* A2 extending A, A3 extending A2
IsSub(t, u) == \/ t = u
               \/ (t = "A2" /\ u = "A")
               \/ (t = "A3" /\ u \in {"A", "A2"})
\* pointer -> <<source root, "prop"|"link", target type>>
PtrInfo == [ n  |-> <<"A", "prop", <<"sc", "int64">>>>,
             o  |-> <<"A", "prop", <<"sc", "int64">>>>,
             ms |-> <<"A", "prop", <<"sc", "int64">>>>,
             l  |-> <<"A", "link", <<"obj", "B">>>>,
             ml |-> <<"A", "link", <<"obj", "B">>>>,
             rl |-> <<"A", "link", <<"obj", "B">>>>,
             m  |-> <<"B", "prop", <<"sc", "int64">>>>,
             s  |-> <<"B", "prop", <<"sc", "str">>>> ]
APtrs == {"n", "o", "ms", "l", "ml", "rl"}
BPtrs == {"m", "s"}

(* ------------------------------------------------------------ values ---- *)
\* numbers carry their kind; the payload counts halves (1 = 0.5) so that
\* 1.5 is representable: <<"i", "float64", 3>>
Num(k, p) == <<"i", k, p>>
I64(n)    == Num("int64", 2 * n)
Str(x)    == <<"s", x>>
Bool(b)   == <<"b", b>>
Obj(i)    == <<"o", i>>
Tup(a, b) == <<"t", <<a, b>>>>
Arr(s)    == <<"a", s>>

NumKinds == {"int16", "int32", "int64", "float32", "float64", "bigint",
             "decimal", "Pos", "Neg"}
\* direct implicit casts (user scalars Pos / Neg extend int64)
Up(k) == CASE k = "int16"   -> {"int32", "float32"}
           [] k = "int32"   -> {"int64", "float64"}
           [] k = "int64"   -> {"bigint", "float64"}
           [] k = "float32" -> {"float64"}
           [] k = "bigint"  -> {"decimal"}
           [] k = "Pos"     -> {"int64"}
           [] k = "Neg"     -> {"int64"}
           [] OTHER         -> {}
RECURSIVE CastStar(_)
CastStar(k) == {k} \cup UNION {CastStar(j) : j \in Up(k)}
Common(k1, k2) == CastStar(k1) \cap CastStar(k2)
HasLub(k1, k2) == \E k \in Common(k1, k2) : \A j \in Common(k1, k2) : j \in CastStar(k)
Lub(k1, k2) == CHOOSE k \in Common(k1, k2) : \A j \in Common(k1, k2) : j \in CastStar(k)
BaseOf(k) == IF k \in {"Pos", "Neg"} THEN "int64" ELSE k

(* ------------------------------------------------------------- types ---- *)
Sc(k) == <<"sc", k>>
TObj(t) == <<"obj", t>>
TTup(a, b) == <<"tuple", a, b>>
TArr(a) == <<"array", a>>
None == <<"none">>
IsNum(ty) == ty[1] = "sc" /\ ty[2] \in NumKinds
IsObjT(ty) == ty[1] = "obj"

\* least common type of two types, None if there is none
RECURSIVE Join(_, _)
Join(a, b) ==
    IF a = None \/ b = None THEN None
    ELSE IF a = b THEN a
    ELSE IF IsNum(a) /\ IsNum(b)
         THEN IF HasLub(a[2], b[2]) THEN Sc(Lub(a[2], b[2])) ELSE None
    ELSE IF IsObjT(a) /\ IsObjT(b)
         THEN IF IsSub(a[2], b[2]) THEN b
              ELSE IF IsSub(b[2], a[2]) THEN a
              ELSE None          \* union types are outside the fragment
    ELSE IF a[1] = "tuple" /\ b[1] = "tuple"
         THEN LET x == Join(a[2], b[2])  y == Join(a[3], b[3])
              IN IF x = None \/ y = None THEN None ELSE TTup(x, y)
    ELSE IF a[1] = "array" /\ b[1] = "array"
         THEN LET x == Join(a[2], b[2]) IN IF x = None THEN None ELSE TArr(x)
    ELSE None

(* --------------------------------------------------------- databases ---- *)
\* every object is one uniform record; every pointer holds a bag of values
BObj(i) == [ty |-> "B", n |-> <<>>, o |-> <<>>, ms |-> <<>>, l |-> <<>>,
            ml |-> <<>>, rl |-> <<>>,
            m |-> <<I64(i)>>, s |-> IF i = 1 THEN <<Str("x")>> ELSE <<>>]
Profiles == {"sparse", "full", "dup"}
AObj(ty, prof, idx, nb) ==
    [ty |-> ty, n |-> <<I64(10 * idx)>>, m |-> <<>>, s |-> <<>>,
     o  |-> IF prof = "sparse" THEN <<>> ELSE <<I64(1)>>,
     ms |-> CASE prof = "sparse" -> <<>>
              [] prof = "full"   -> <<I64(1), I64(2)>>
              [] OTHER           -> <<I64(1), I64(1)>>,
     l  |-> CASE prof = "sparse" -> <<>>
              [] prof = "full"   -> <<Obj(nb)>>
              [] OTHER           -> <<Obj(1)>>,
     ml |-> CASE prof = "sparse" -> <<>>
              [] prof = "full"   -> [i \in 1..nb |-> Obj(i)]
              [] OTHER           -> <<Obj(1)>>,
     rl |-> IF prof = "full" THEN <<Obj(nb)>> ELSE <<Obj(1)>>]
\* object ids: B objects are 1..nb, A objects follow
Choices1 == {"A", "A3"} \X Profiles
Choices2 == {"A2", "A3"} \X Profiles
DBsWith(nb) ==
    LET bs == [i \in 1..nb |-> BObj(i)] IN
    {bs}
    \cup {bs \o <<AObj(c[1], c[2], 1, nb)>> : c \in Choices1}
    \cup {bs \o <<AObj(c[1], c[2], 1, nb), AObj(d[1], d[2], 2, nb)>> :
             c \in Choices1, d \in Choices2}
DBs == {<<>>} \cup UNION {DBsWith(nb) : nb \in 1..NB}
\* the small family whose full results are printed for the cross-check
\* against the repository's own evaluator
B1 == [i \in 1..1 |-> BObj(i)]
B2 == [i \in 1..2 |-> BObj(i)]
ShowSeq == << <<>>, B1,
             B1 \o <<AObj("A", "full", 1, 1)>>,
             B2 \o <<AObj("A3", "dup", 1, 2)>>,
             B1 \o <<AObj("A", "full", 1, 1), AObj("A3", "dup", 2, 1)>>,
             B2 \o <<AObj("A", "dup", 1, 2), AObj("A2", "full", 2, 2)>>,
             B2 \o <<AObj("A3", "sparse", 1, 2), AObj("A3", "full", 2, 2)>> >>

Roots(db, T) == SelectSeq([i \in 1..Len(db) |-> Obj(i)],
                          LAMBDA v : IF T = "B" THEN db[v[2]].ty = "B"
                                     ELSE db[v[2]].ty \in ATypes /\ IsSub(db[v[2]].ty, T))

(* --------------------------------------------------------- bag tools ---- *)
RECURSIVE Dedup(_)
Dedup(s) == IF s = <<>> THEN <<>>
            ELSE LET r == Dedup(Front(s)) IN
                 IF \E i \in 1..Len(r) : r[i] = Last(s) THEN r ELSE Append(r, Last(s))
HasDup(s) == \E i, j \in 1..Len(s) : i < j /\ s[i] = s[j]
Member(v, s) == \E i \in 1..Len(s) : s[i] = v
Flat(ss) == FlattenSeq(ss)
\* value equality of the `=` operator: numbers compare by magnitude
VEq(a, b) == IF a[1] = "i" /\ b[1] = "i" THEN a[3] = b[3] ELSE a = b
RECURSIVE CastV(_, _)
\* implicit cast of a value to a type (numbers change kind, containers map)
CastV(v, ty) ==
    CASE v[1] = "i" -> IF ty[1] = "sc" THEN Num(ty[2], v[3]) ELSE v
      [] v[1] = "t" -> IF ty[1] = "tuple"
                       THEN Tup(CastV(v[2][1], ty[2]), CastV(v[2][2], ty[3])) ELSE v
      [] v[1] = "a" -> IF ty[1] = "array"
                       THEN Arr([i \in 1..Len(v[2]) |-> CastV(v[2][i], ty[2])]) ELSE v
      [] OTHER -> v
CastAll(s, ty) == [i \in 1..Len(s) |-> CastV(s[i], ty)]

(* ------------------------------------------------------------- terms ---- *)
\*  <<"lit", bag, type>>        set literal (type given, the bag may be empty)
\*  <<"root", T>>               DETACHED T
\*  <<"var">>                   the bound variable (FOR x / shape subject)
\*  <<"ptr", e, p>>             e.p
\*  <<"filter", e, p, v>>       SELECT e FILTER .p = v
\*  <<"distinct", e>> <<"count", e>> <<"exists", e>> <<"min", e>>
\*  <<"aagg", e>> <<"unpack", e>> <<"enum", e>>
\*  <<"limit", e, k>>           SELECT e LIMIT k           (k literal)
\*  <<"limitc", e, T>>          SELECT e LIMIT count(DETACHED T)
\*  <<"offset", e, k>>          SELECT e OFFSET k
\*  <<"isect", e, T>>           e [IS T]
\*  <<"cast", k, e>>            <k>e  (numeric)
\*  <<"rng", k>>                range(<k>1, <k>10)
\*  <<"rcast", k, e>>           <range<k>>e
\*  <<"union", a, b>> <<"coal", a, b>> <<"tup", a, b>> <<"plus", a, b>>
\*  <<"eq", a, b>> <<"opteq", a, b>> <<"in", a, b>>
\*  <<"if", c, a, b>>           a IF c ELSE b
\*  <<"for", e, body>>          FOR x IN e UNION body(x)
\*  <<"shape", T, body>>        SELECT DETACHED T { el := body(.) }  (top level)

RECURSIVE TypeOf(_, _)
TypeOf(t, vt) ==
  LET op == t[1] IN
  CASE op = "lit"  -> t[3]
    [] op = "root" -> TObj(t[2])
    [] op = "var"  -> vt
    [] op = "ptr"  ->
         LET a == TypeOf(t[2], vt)  info == PtrInfo[t[3]] IN
         IF IsObjT(a) /\ ((info[1] = "B" /\ a[2] = "B") \/ (info[1] = "A" /\ a[2] \in ATypes))
         THEN info[3] ELSE None
    [] op = "filter" ->
         LET a == TypeOf(t[2], vt)  info == PtrInfo[t[3]] IN
         IF IsObjT(a) /\ ((info[1] = "B" /\ a[2] = "B") \/ (info[1] = "A" /\ a[2] \in ATypes))
            /\ info[2] = "prop"
         THEN a ELSE None
    [] op \in {"distinct", "limit", "limitc", "offset"} -> TypeOf(t[2], vt)
    [] op = "count"  -> IF TypeOf(t[2], vt) = None THEN None ELSE Sc("int64")
    [] op = "exists" -> IF TypeOf(t[2], vt) = None THEN None ELSE Sc("bool")
    [] op = "min"    -> LET a == TypeOf(t[2], vt) IN
                        IF a[1] = "sc" /\ a[2] # "bool" THEN a ELSE None
    [] op = "aagg"   -> LET a == TypeOf(t[2], vt) IN
                        IF a = None \/ a[1] = "array" THEN None ELSE TArr(a)
    [] op = "unpack" -> LET a == TypeOf(t[2], vt) IN
                        IF a[1] = "array" THEN a[2] ELSE None
    [] op = "enum"   -> LET a == TypeOf(t[2], vt) IN
                        IF a = None THEN None ELSE TTup(Sc("int64"), a)
    [] op = "isect"  -> LET a == TypeOf(t[2], vt) IN
                        IF IsObjT(a) /\ a[2] \in ATypes /\ IsSub(t[3], a[2])
                        THEN TObj(t[3]) ELSE None
    [] op = "cast"   -> LET a == TypeOf(t[3], vt) IN
                        IF IsNum(a) THEN Sc(t[2]) ELSE None
    [] op = "rng"    -> <<"range", t[2]>>
    [] op = "rcast"  -> LET a == TypeOf(t[3], vt) IN
                        IF a[1] = "range" THEN <<"range", t[2]>> ELSE None
    [] op \in {"union", "coal"} -> Join(TypeOf(t[2], vt), TypeOf(t[3], vt))
    [] op = "tup"    -> LET a == TypeOf(t[2], vt)  b == TypeOf(t[3], vt) IN
                        IF a = None \/ b = None THEN None ELSE TTup(a, b)
    [] op = "plus"   -> LET a == TypeOf(t[2], vt)  b == TypeOf(t[3], vt) IN
                        IF IsNum(a) /\ IsNum(b) /\ HasLub(a[2], b[2])
                        THEN Sc(BaseOf(Lub(a[2], b[2]))) ELSE None
    [] op \in {"eq", "opteq", "in"} ->
                        LET j == Join(TypeOf(t[2], vt), TypeOf(t[3], vt)) IN
                        IF j = None THEN None ELSE Sc("bool")
    [] op = "if"     -> IF TypeOf(t[2], vt) = Sc("bool")
                        THEN Join(TypeOf(t[3], vt), TypeOf(t[4], vt)) ELSE None
    [] op = "for"    -> LET a == TypeOf(t[2], vt) IN
                        IF a = None THEN None ELSE TypeOf(t[3], a)
    [] OTHER -> None

RECURSIVE Eval(_, _, _)
Eval(t, env, db) ==
  LET op == t[1] IN
  CASE op = "lit"  -> t[2]
    [] op = "root" -> Roots(db, t[2])
    [] op = "var"  -> <<env.v>>
    [] op = "ptr"  ->
         LET src == Eval(t[2], env, db)
             all == Flat([i \in 1..Len(src) |-> db[src[i][2]][t[3]]])
         IN  \* a link reached through a path is a set of objects
             IF PtrInfo[t[3]][2] = "link" THEN Dedup(all) ELSE all
    [] op = "filter" ->
         LET src == Eval(t[2], env, db) IN
         SelectSeq(src, LAMBDA v : \E i \in 1..Len(db[v[2]][t[3]]) :
                                       VEq(db[v[2]][t[3]][i], t[4]))
    [] op = "distinct" -> Dedup(Eval(t[2], env, db))
    [] op = "count"  -> <<I64(Len(Eval(t[2], env, db)))>>
    [] op = "exists" -> <<Bool(Eval(t[2], env, db) # <<>>)>>
    [] op = "min"    ->
         LET s == Eval(t[2], env, db) IN
         IF s = <<>> THEN <<>>
         ELSE IF s[1][1] = "i"
              THEN <<CHOOSE v \in ToSet(s) : \A w \in ToSet(s) : v[3] <= w[3]>>
              ELSE <<s[1]>>      \* one string value only in this fragment
    [] op = "aagg"   -> <<Arr(Eval(t[2], env, db))>>
    [] op = "unpack" -> LET s == Eval(t[2], env, db) IN
                        Flat([i \in 1..Len(s) |-> s[i][2]])
    [] op = "enum"   -> LET s == Eval(t[2], env, db) IN
                        [i \in 1..Len(s) |-> Tup(I64(i - 1), s[i])]
    [] op = "limit"  -> LET s == Eval(t[2], env, db) IN
                        SubSeq(s, 1, IF t[3] < Len(s) THEN t[3] ELSE Len(s))
    [] op = "limitc" -> LET s == Eval(t[2], env, db)  k == Len(Roots(db, t[3])) IN
                        SubSeq(s, 1, IF k < Len(s) THEN k ELSE Len(s))
    [] op = "offset" -> LET s == Eval(t[2], env, db) IN
                        IF t[3] >= Len(s) THEN <<>> ELSE SubSeq(s, t[3] + 1, Len(s))
    [] op = "isect"  -> SelectSeq(Eval(t[2], env, db),
                                  LAMBDA v : IsSub(db[v[2]].ty, t[3]))
    [] op = "cast"   -> CastAll(Eval(t[3], env, db), Sc(t[2]))
    [] op = "rng"    -> << <<"r", t[2], 2, 20>> >>
    [] op = "rcast"  -> LET s == Eval(t[3], env, db) IN
                        [i \in 1..Len(s) |-> <<"r", t[2], s[i][3], s[i][4]>>]
    \* operands of mixed numeric kinds are implicitly cast to the join
    [] op = "union"  -> LET ty == TypeOf(t, env.ty) IN
                        CastAll(Eval(t[2], env, db), ty) \o CastAll(Eval(t[3], env, db), ty)
    [] op = "coal"   -> LET a == Eval(t[2], env, db)  ty == TypeOf(t, env.ty) IN
                        IF a # <<>> THEN CastAll(a, ty) ELSE CastAll(Eval(t[3], env, db), ty)
    [] op = "tup"    -> LET a == Eval(t[2], env, db)  b == Eval(t[3], env, db) IN
                        Flat([i \in 1..Len(a) |-> [j \in 1..Len(b) |-> Tup(a[i], b[j])]])
    [] op = "plus"   -> LET a == Eval(t[2], env, db)  b == Eval(t[3], env, db) IN
                        Flat([i \in 1..Len(a) |->
                               [j \in 1..Len(b) |-> Num(TypeOf(t, env.ty)[2], a[i][3] + b[j][3])]])
    [] op = "eq"     -> LET a == Eval(t[2], env, db)  b == Eval(t[3], env, db) IN
                        Flat([i \in 1..Len(a) |-> [j \in 1..Len(b) |-> Bool(VEq(a[i], b[j]))]])
    [] op = "opteq"  -> LET a == Eval(t[2], env, db)  b == Eval(t[3], env, db) IN
                        IF a = <<>> /\ b = <<>> THEN <<Bool(TRUE)>>
                        ELSE IF a = <<>> \/ b = <<>> THEN <<Bool(FALSE)>>
                        ELSE Flat([i \in 1..Len(a) |->
                                    [j \in 1..Len(b) |-> Bool(VEq(a[i], b[j]))]])
    [] op = "in"     -> LET a == Eval(t[2], env, db)  b == Eval(t[3], env, db) IN
                        [i \in 1..Len(a) |-> Bool(\E j \in 1..Len(b) : VEq(a[i], b[j]))]
    [] op = "if"     -> LET c == Eval(t[2], env, db)  ty == TypeOf(t, env.ty) IN
                        Flat([i \in 1..Len(c) |->
                               IF c[i][2] THEN CastAll(Eval(t[3], env, db), ty)
                                          ELSE CastAll(Eval(t[4], env, db), ty)])
    [] op = "for"    -> LET s == Eval(t[2], env, db)  ty == TypeOf(t[2], env.ty) IN
                        Flat([i \in 1..Len(s) |-> Eval(t[3], [v |-> s[i], ty |-> ty], db)])

NoEnv == [v |-> <<>>, ty |-> None]
Run(t, env, db) == Eval(t, env, db)

(* ------------------------------------------- reference inference ---- *)
\* A reference cardinality inference over the same terms: <<lo, hi>> with
\* lo in {0, 1} and hi in {0, 1, 2}  (2 = many).  TLC checks it sound against
\* Eval on every database (CardSound); the harness reports where the real
\* compiler claims something tighter or looser than this reference.
Mx(a, b) == IF a >= b THEN a ELSE b
Mn(a, b) == IF a <= b THEN a ELSE b
Prod(a, b) == <<IF a[1] = 1 /\ b[1] = 1 THEN 1 ELSE 0,
               IF a[2] = 0 \/ b[2] = 0 THEN 0 ELSE IF a[2] = 1 /\ b[2] = 1 THEN 1 ELSE 2>>
RECURSIVE SpecCard(_)
SpecCard(t) ==
  LET op == t[1] IN
  CASE op = "lit"  -> LET n == Len(t[2]) IN
                      <<IF n >= 1 THEN 1 ELSE 0, IF n = 0 THEN 0 ELSE IF n = 1 THEN 1 ELSE 2>>
    [] op = "root" -> <<0, 2>>
    [] op = "var"  -> <<1, 1>>
    [] op = "rng"  -> <<1, 1>>
    [] op = "ptr"  -> LET c == SpecCard(t[2]) IN
                      IF t[3] \in {"n", "m", "rl"} THEN c
                      ELSE IF t[3] \in {"o", "l", "s"} THEN <<0, c[2]>>
                      ELSE <<0, IF c[2] = 0 THEN 0 ELSE 2>>
    [] op = "filter" -> LET c == SpecCard(t[2]) IN
                      <<0, IF t[3] \in {"n", "m"} /\ t[2][1] = "root" THEN Mn(1, c[2]) ELSE c[2]>>
    [] op \in {"distinct", "enum", "cast", "rcast", "in"} ->
                      SpecCard(IF op \in {"cast", "rcast"} THEN t[3] ELSE t[2])
    [] op \in {"count", "exists", "aagg"} -> <<1, 1>>
    [] op = "min"    -> LET c == SpecCard(t[2]) IN <<c[1], Mn(1, c[2])>>
    [] op = "unpack" -> LET c == SpecCard(t[2]) IN <<0, IF c[2] = 0 THEN 0 ELSE 2>>
    [] op = "limit"  -> LET c == SpecCard(t[2]) IN
                      IF t[3] = 0 THEN <<0, 0>> ELSE <<c[1], IF t[3] = 1 THEN Mn(1, c[2]) ELSE c[2]>>
    [] op \in {"limitc", "offset", "isect"} -> <<0, SpecCard(t[2])[2]>>
    [] op = "union"  -> LET a == SpecCard(t[2])  b == SpecCard(t[3]) IN
                      <<Mx(a[1], b[1]),
                        IF a[2] = 0 THEN b[2] ELSE IF b[2] = 0 THEN a[2] ELSE 2>>
    [] op = "coal"   -> LET a == SpecCard(t[2])  b == SpecCard(t[3]) IN
                      IF a[1] = 1 THEN a ELSE <<Mx(a[1], b[1]), Mx(a[2], b[2])>>
    [] op \in {"tup", "plus", "eq"} -> Prod(SpecCard(t[2]), SpecCard(t[3]))
    [] op = "opteq"  -> LET a == SpecCard(t[2])  b == SpecCard(t[3]) IN
                      <<1, IF a[2] <= 1 /\ b[2] <= 1 THEN 1 ELSE 2>>
    [] op = "if"     -> LET c == SpecCard(t[2])  a == SpecCard(t[3])  b == SpecCard(t[4]) IN
                      Prod(c, <<Mn(a[1], b[1]), Mx(a[2], b[2])>>)
    [] op = "for"    -> Prod(SpecCard(t[2]), SpecCard(t[3]))
    [] OTHER -> <<0, 2>>

\* A reference duplicate-freedom inference: "U" = never a duplicate, "D" = no
\* claim.  TLC checks it sound against Eval as well (MultSound).
RECURSIVE SpecMult(_)
SpecMult(t) ==
  LET op == t[1] IN
  IF SpecCard(t)[2] <= 1 THEN "U"
  ELSE
  CASE op = "lit"  -> IF HasDup(t[2]) THEN "D" ELSE "U"
    [] op \in {"root", "distinct", "enum"} -> "U"
    [] op = "ptr"  -> IF PtrInfo[t[3]][2] = "link" THEN "U"
                      ELSE IF t[3] \in {"n", "m"} THEN SpecMult(t[2]) ELSE "D"
    [] op \in {"filter", "limit", "limitc", "offset", "isect"} -> SpecMult(t[2])
    [] op \in {"cast", "rcast"} -> SpecMult(t[3])
    [] op = "union"  -> IF SpecCard(t[2])[2] = 0 THEN SpecMult(t[3])
                        ELSE IF SpecCard(t[3])[2] = 0 THEN SpecMult(t[2]) ELSE "D"
    [] op \in {"coal", "tup"} -> IF SpecMult(t[2]) = "U" /\ SpecMult(t[3]) = "U" THEN "U" ELSE "D"
    [] op = "if"     -> IF SpecCard(t[2])[2] <= 1 /\ SpecMult(t[3]) = "U" /\ SpecMult(t[4]) = "U"
                        THEN "U" ELSE "D"
    [] op = "for"    -> IF t[3] = <<"var">> THEN SpecMult(t[2]) ELSE "D"
    [] OTHER -> "D"

(* ---------------------------------------------------------- universe ---- *)
Ints1  == <<"lit", <<I64(1)>>, Sc("int64")>>
Ints12 == <<"lit", <<I64(1), I64(2)>>, Sc("int64")>>
Ints11 == <<"lit", <<I64(1), I64(1)>>, Sc("int64")>>
Ints0  == <<"lit", <<>>, Sc("int64")>>
Flt    == <<"lit", <<Num("float64", 3)>>, Sc("float64")>>
StrX   == <<"lit", <<Str("x")>>, Sc("str")>>
RootA  == <<"root", "A">>
RootA3 == <<"root", "A3">>
RootB  == <<"root", "B">>
NumLeaf(k) == <<"lit", <<Num(k, 2)>>, Sc(k)>>
NumLeaves == {NumLeaf(k) : k \in NumKinds \ {"int64"}}

RangeKinds == {"int32", "int64", "float32", "float64", "decimal"}
Leaves == {Ints1, Ints12, Ints11, Ints0, Flt, StrX, RootA, RootA3, RootB}
SmallLeaves == {Ints1, Ints12, Ints0, RootA, RootB}

Unary(E) ==
       {<<"ptr", e, p>> : e \in E, p \in APtrs \cup BPtrs}
  \cup {<<"filter", e, p, I64(v)>> : e \in E, p \in {"n", "o", "ms"}, v \in {1, 10}}
  \cup {<<"filter", e, "m", I64(1)>> : e \in E}
  \cup {<<op, e>> : op \in {"distinct", "count", "exists", "min", "aagg", "unpack", "enum"},
                    e \in E}
  \cup {<<"limit", e, k>> : e \in E, k \in {0, 1, 2}}
  \cup {<<"limitc", e, T>> : e \in E, T \in {"B", "A3"}}
  \cup {<<"offset", e, 1>> : e \in E}
  \cup {<<"isect", e, T>> : e \in E, T \in {"A2", "A3"}}
Binary(E, F) ==
       {<<op, a, b>> : op \in {"union", "coal", "tup", "plus", "eq", "opteq", "in"},
                       a \in E, b \in F}
CondsOf(E) == {e \in E : e[1] \in {"exists", "eq", "in"}}
Ifs(C, E, F) == {<<"if", c, a, b>> : c \in C, a \in E, b \in F}
\* bodies over the bound variable: the variable, its pointers, tuples with it
VarBodies == {<<"var">>}
             \cup {<<"ptr", <<"var">>, p>> : p \in APtrs \cup BPtrs}
             \cup {<<"tup", <<"var">>, <<"ptr", <<"var">>, p>>>> : p \in {"ms", "ml"}}
             \cup {<<"count", <<"ptr", <<"var">>, p>>>> : p \in {"ms", "ml", "o"}}
             \cup {<<"lit", <<I64(1)>>, Sc("int64")>>}
             \cup {<<"plus", <<"var">>, <<"lit", <<I64(1)>>, Sc("int64")>>>>}
             \cup {<<"union", <<"var">>, <<"var">>>>}
Fors(E) == {<<"for", e, b>> : e \in E, b \in VarBodies}
\* set operators over two FOR results (each duplicate-free by itself)
ForPairs == LET F == {<<"for", e, b>> : e \in {RootA, RootA3, Ints12},
                                        b \in {<<"var">>, <<"ptr", <<"var">>, "n">>,
                                                <<"ptr", <<"var">>, "rl">>}}
            IN {<<op, f, g>> : op \in {"union", "coal"}, f \in F \cup {RootA3, Ints12}, g \in F}

WellTyped(S) == {t \in S : TypeOf(t, None) # None}

U0 == Leaves
U1 == WellTyped(Unary(U0) \cup Binary(U0, U0) \cup Fors(U0)
                \* (a float is only cast to kinds that keep its fraction: rounding
                \* modes are not part of this fragment)
                \cup {<<"cast", k, Ints1>> : k \in NumKinds}
                \cup {<<"cast", k, Flt>> : k \in {"float32", "float64", "decimal"}}
                \cup Binary(NumLeaves \cup {Ints1, Flt}, NumLeaves)
                \cup {<<"rng", k>> : k \in RangeKinds}
                \cup {<<"rcast", k2, <<"rng", k>>>> : k \in RangeKinds, k2 \in RangeKinds})
U1core == {t \in U1 : t[1] \notin {"cast"} /\ (t[1] \notin {"plus", "eq", "opteq", "in", "union", "coal", "tup"}
                                              \/ (t[2] \in Leaves /\ t[3] \in Leaves))}
\* (operators with a parameter: TLC evaluates parameterless constant definitions
\* eagerly at start-up, also the ones the chosen Level does not use)
U2(x) == WellTyped(Unary(U1core) \cup Binary(U1core, SmallLeaves) \cup Binary(SmallLeaves, U1core)
                \cup Fors(U1core)
                \cup Ifs(CondsOf(U1core), SmallLeaves, SmallLeaves)
                \cup ForPairs)
U1sel == {t \in U1core : t[1] \in {"ptr", "filter", "distinct", "count", "exists", "limit", "limitc", "isect", "for"}
                        /\ t[2][1] \in {"root", "lit"}}
U3(x) == WellTyped(Binary(U1sel, U1sel) \cup Ifs(CondsOf(U1core), U1sel, SmallLeaves))

\* shape elements: SELECT DETACHED T { el := body } - body over the subject
ShapeBodies ==
    LET V == <<"var">> IN
       {<<"ptr", V, p>> : p \in APtrs}
  \cup {<<op, <<"ptr", V, p>>>> : op \in {"count", "exists", "distinct", "min", "aagg"},
                                  p \in {"n", "o", "ms"}}
  \cup {<<"count", <<"ptr", V, p>>>> : p \in {"l", "ml", "rl"}}
  \cup {<<"ptr", <<"ptr", V, p>>, q>> : p \in {"l", "ml", "rl"}, q \in BPtrs}
  \cup {<<op, <<"ptr", V, p>>, <<"ptr", V, q>>>> :
            op \in {"union", "coal", "tup", "plus", "eq", "opteq"},
            p \in {"n", "o", "ms"}, q \in {"n", "o", "ms"}}
  \cup {<<"coal", <<"ptr", V, p>>, Ints1>> : p \in {"n", "o", "ms"}}
  \cup {<<"limit", <<"ptr", V, p>>, 1>> : p \in {"ms", "ml"}}
  \cup {<<"limitc", <<"ptr", V, p>>, "B">> : p \in {"n", "ms"}}
  \cup {<<"filter", <<"ptr", V, p>>, "m", I64(1)>> : p \in {"l", "ml", "rl"}}
  \cup {<<"for", <<"ptr", V, "ml">>, <<"ptr", <<"var">>, "m">>>>}
Shapes == {<<"shape", T, b>> : T \in {"A", "A3"}, b \in ShapeBodies}

Universe == CASE Level = 1 -> U0 \cup U1 \cup Shapes
              [] Level = 2 -> U2(0)
              [] OTHER     -> U3(0)

(* -------------------------------------------------------------- spec ---- *)
\* start -> 64 buckets -> the terms of each bucket: TLC's workers evaluate
\* the buckets in parallel; every term is one (terminal) state
VARIABLE term
vars == <<term>>
NBuckets == 64
USeq == SetToSeq(Universe)
Init == term = <<"start">>
Next == \/ /\ term = <<"start">>
           /\ \E k \in 1..NBuckets : term' = <<"bucket", k>>
        \/ /\ term[1] = "bucket"
           /\ LET u == USeq IN      \* evaluated once per bucket
              \E i \in {j \in 1..Len(u) : j % NBuckets = term[2] - 1} : term' = u[i]
Spec == Init /\ [][Next]_vars
IsTerm == term[1] \notin {"start", "bucket"}

IsShape == term[1] = "shape"
Body == IF IsShape THEN term[3] ELSE term
\* the bags to judge: for a shape, one bag per subject object
BagsOn(db) ==
    IF IsShape
    THEN LET subj == Roots(db, term[2]) IN
         {Run(term[3], [v |-> subj[i], ty |-> TObj(term[2])], db) : i \in 1..Len(subj)}
    ELSE {Run(term, NoEnv, db)}
StaticType == IF IsShape THEN TypeOf(term[3], TObj(term[2])) ELSE TypeOf(term, None)

RECURSIVE HasType(_, _)
HasType(v, ty) ==
    CASE v[1] = "i" -> ty = Sc(v[2])
      [] v[1] = "s" -> ty = Sc("str")
      [] v[1] = "b" -> ty = Sc("bool")
      [] v[1] = "o" -> IsObjT(ty)
      [] v[1] = "t" -> ty[1] = "tuple" /\ HasType(v[2][1], ty[2]) /\ HasType(v[2][2], ty[3])
      [] v[1] = "a" -> ty[1] = "array" /\ \A i \in 1..Len(v[2]) : HasType(v[2][i], ty[2])
      [] v[1] = "r" -> ty = <<"range", v[2]>>
      [] OTHER -> FALSE

(* model-level laws, checked by TLC for every term on every database:      *)
(*  TypeSound    - C12 on the model: every value belongs to the static type *)
(*  ObjTypeSound - an object's type is a subtype of the static object type  *)
(*  Laws         - algebraic facts the inference rules rely on              *)
TypeSoundOn(obs) == \A db \in DBs : \A b \in obs[db] : \A i \in 1..Len(b) : HasType(b[i], StaticType)
ObjTypeSoundOn(obs) ==
    IsObjT(StaticType) =>
       \A db \in DBs : \A b \in obs[db] : \A i \in 1..Len(b) :
           IF StaticType[2] = "B" THEN db[b[i][2]].ty = "B"
           ELSE IsSub(db[b[i][2]].ty, StaticType[2])
LawsOn(obs) ==
    LET t == Body IN
    \A db \in DBs : \A b \in obs[db] :
       /\ (t[1] \in {"count", "exists", "aagg"} => Len(b) = 1)
       /\ (t[1] \in {"distinct"} => ~HasDup(b))
       /\ (t[1] = "min" => Len(b) <= 1)
       /\ (t[1] = "limit" => Len(b) <= t[3])
       /\ (t[1] = "opteq" => Len(b) >= 1)
       /\ (t[1] = "root" => ~HasDup(b))
       /\ (t[1] = "filter" /\ t[3] \in {"n", "m"} /\ t[2][1] = "root" => Len(b) <= 1)

Shown == IF IsShape THEN <<>>
         ELSE [i \in 1..Len(ShowSeq) |-> Run(term, NoEnv, ShowSeq[i])]
ASSUME PrintT("DBS " \o ToString(ShowSeq))

\* one pass per term: evaluate on every database once, judge, print
Judge ==
    IsTerm =>
      LET obs   == [db \in DBs |-> BagsOn(db)]
          all   == UNION {obs[db] : db \in DBs}
          sizes == {Len(b) : b \in all}
          dup   == \E b \in all : HasDup(b)
          ref   == SpecCard(Body)
          refm  == SpecMult(Body)
      IN /\ PrintT("OUT " \o ToString(<<term, StaticType, sizes, dup, ref, refm>>))
         \* the reference duplicate-freedom inference is sound on every database
         /\ (refm = "U" => ~dup)
         \* the reference inference is sound on every database
         /\ \A n \in sizes : n >= ref[1] /\ (ref[2] = 0 => n = 0) /\ (ref[2] = 1 => n <= 1)
         /\ (~WantShow \/ PrintT("SHOW " \o ToString(<<term, Shown>>)))
         /\ TypeSoundOn(obs)
         /\ ObjTypeSoundOn(obs)
         /\ LawsOn(obs)
TypeSound == IsTerm => TypeSoundOn([db \in DBs |-> BagsOn(db)])
ObjTypeSound == IsTerm => ObjTypeSoundOn([db \in DBs |-> BagsOn(db)])
Laws == IsTerm => LawsOn([db \in DBs |-> BagsOn(db)])
=============================================================================
