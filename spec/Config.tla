------------------------------- MODULE Config -------------------------------
(***************************************************************************)
(* edb/server/config : three-scope configuration maps and the operations   *)
(* CONFIGURE SET / RESET / INSERT (ADD) / RESET ... FILTER (REM).          *)
(*                                                                         *)
(* This is the REFERENCE semantics of C19: per scope a map setting ->      *)
(* value; the effective value is the one of the most specific scope that   *)
(* defines the setting, else the default; an operation with a value        *)
(* outside the setting's type/range, or violating an exclusive key of an   *)
(* object-valued setting, is rejected and changes nothing.                 *)
(*                                                                         *)
(* Every history (sequence of operations, valid and invalid) up to MaxLen  *)
(* is ONE state (`hist` is part of the state), so TLC's state space is the *)
(* exhaustive universe of histories; each state prints the expected maps   *)
(* and effective values (OUT lines) which harness/c19.py compares with the *)
(* real Operation.apply / config.lookup after replaying the same history.  *)
(***************************************************************************)
EXTENDS Naturals, Sequences, FiniteSets, TLC

CONSTANTS
    Scalars,     \* names of scalar-like settings (int, str, bool, enum, duration, memory)
    Multis,      \* names of multi-valued (set of str) settings
    Objs,        \* names of object-set settings with an exclusive key
    NVals,       \* scalar value domain 1..NVals ; 0 is the default
    Elems,       \* element domain of multi-valued settings
    Keys,        \* exclusive-key domain of object settings
    Payloads,    \* other field of an object (objects are <<key, payload>>)
    Scopes,      \* sequence of scopes, most specific first
    ObjScopes,   \* scopes at which object-valued settings can be configured (INSERT is not
                 \* available at session scope)
    MaxLen,      \* length of histories
    Emit

ScopeSeq == <<"session", "database", "instance">>
Settings == Scalars \cup Multis \cup Objs
ScopeSet == {Scopes[i] : i \in 1..Len(Scopes)}
\* stored values are tagged records so that values of different shapes compare
Absent == [t |-> "absent"]
V(x) == [t |-> "val", v |-> x]

VARIABLES cfg, hist, last   \* last: "ok" | "rejected" (outcome of the last operation)
vars == <<cfg, hist, last>>

Default(s) == IF s \in Scalars THEN 0 ELSE {}

Init ==
    /\ cfg = [sc \in ScopeSet |-> [s \in Settings |-> Absent]]
    /\ hist = <<>>
    /\ last = "ok"

Cur(sc, s) == IF cfg[sc][s] = Absent THEN Default(s) ELSE cfg[sc][s].v

Step(op, newcfg, outcome) ==
    /\ Len(hist) < MaxLen
    /\ hist' = Append(hist, op)
    /\ cfg' = newcfg
    /\ last' = outcome

(* CONFIGURE <scope> SET s := v *)
SetOk(sc, s, v) == Step(<<"SET", sc, s, V(v)>>, [cfg EXCEPT ![sc][s] = V(v)], "ok")
SetInvalid(sc, s) == Step(<<"SET", sc, s, [t |-> "invalid"]>>, cfg, "rejected")

(* CONFIGURE <scope> RESET s *)
Reset(sc, s) == Step(<<"RESET", sc, s, Absent>>, [cfg EXCEPT ![sc][s] = Absent], "ok")

(* CONFIGURE <scope> INSERT Obj {key, payload} *)
KeyTaken(S, o) == \E x \in S : x[1] = o[1]
Add(sc, s, o) ==
    IF KeyTaken(Cur(sc, s), o)
    THEN Step(<<"ADD", sc, s, V(o)>>, cfg, "rejected")
    ELSE Step(<<"ADD", sc, s, V(o)>>, [cfg EXCEPT ![sc][s] = V(Cur(sc, s) \cup {o})], "ok")

(* CONFIGURE <scope> RESET Obj FILTER ... : remove one object *)
\* objects are identified by their exclusive key (the code compares the unique
\* fields only), so the payload of `o` is irrelevant
Rem(sc, s, o) ==
    Step(<<"REM", sc, s, V(o)>>,
         [cfg EXCEPT ![sc][s] = V({x \in Cur(sc, s) : x[1] # o[1]})], "ok")

Next ==
    \/ \E sc \in ScopeSet, s \in Scalars, v \in 0..NVals : SetOk(sc, s, v)
    \/ \E sc \in ScopeSet, s \in Multis, v \in SUBSET Elems : SetOk(sc, s, v)
    \/ \E sc \in ScopeSet, s \in Scalars \cup Multis : SetInvalid(sc, s)
    \/ \E sc \in ScopeSet, s \in Settings : Reset(sc, s)
    \/ \E sc \in ObjScopes, s \in Objs, o \in Keys \X Payloads : Add(sc, s, o)
    \/ \E sc \in ObjScopes, s \in Objs, o \in Keys \X Payloads : Rem(sc, s, o)

(* Persist: the stored maps are serialised (JSON) and loaded back by another
   process that holds its own, equal, instance of the settings spec (the spec
   crosses process boundaries by pickle).  It is a stuttering step of the
   abstract state - [][Next]_vars admits it anywhere - and the conformance
   harness inserts it before the last and in the middle of every history
   (harness/c19.py replay_history(reload_at=k)): the real maps must then
   still project to cfg after the remaining operations. *)
Persist == UNCHANGED vars

Spec == Init /\ [][Next \/ Persist]_vars

-----------------------------------------------------------------------------
(* effective value: most specific scope that defines it, else the default *)
RECURSIVE EffFrom(_, _)
EffFrom(i, s) ==
    IF i > Len(Scopes) THEN Default(s)
    ELSE IF cfg[Scopes[i]][s] # Absent THEN cfg[Scopes[i]][s].v
    ELSE EffFrom(i + 1, s)
Effective(s) == EffFrom(1, s)

TypeOK ==
    /\ \A sc \in ScopeSet, s \in Scalars : cfg[sc][s] = Absent \/ cfg[sc][s].v \in 0..NVals
    /\ \A sc \in ScopeSet, s \in Multis : cfg[sc][s] = Absent \/ cfg[sc][s].v \subseteq Elems
    /\ \A sc \in ScopeSet, s \in Objs :
          cfg[sc][s] = Absent \/ cfg[sc][s].v \subseteq (Keys \X Payloads)

(* exclusive keys are never duplicated *)
ExclusiveOK ==
    \A sc \in ScopeSet, s \in Objs : cfg[sc][s] # Absent =>
        \A a, b \in cfg[sc][s].v : a[1] = b[1] => a = b

(* a rejected operation changes nothing; any operation touches one scope/setting *)
Local == [][\A sc \in ScopeSet, s \in Settings :
               cfg'[sc][s] # cfg[sc][s] =>
                  (last' = "ok" /\ hist'[Len(hist')][2] = sc /\ hist'[Len(hist')][3] = s)]_vars

(* an effective value always comes from a scope or is the default *)
EffOK == \A s \in Settings :
    \/ Effective(s) = Default(s)
    \/ \E sc \in ScopeSet : cfg[sc][s] # Absent /\ cfg[sc][s].v = Effective(s)

EmitOut ==
    Emit => PrintT("OUT " \o ToString(<<hist, last, cfg, [s \in Settings |-> Effective(s)]>>))
=============================================================================
