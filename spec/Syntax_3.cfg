SPECIFICATION Spec
CONSTANT Depth = 3
INVARIANT EmitOut
CHECK_DEADLOCK FALSE
