\* exhaustive safety: 1 database, capacity 1, 2 clients, <= 3 acquires, <= 2 connect failures
SPECIFICATION Spec
CONSTANTS
    DBs = {"d1"}
    Clients = {"c1", "c2"}
    MaxCap = 1
    Retries = 1
    TaskIds = {1, 2, 3, 4}
    MaxConnId = 3
    FailBudget = 2
    MaxOps = 3
    TrackAct = FALSE
    FairPolicy = FALSE
CONSTRAINT Bound
INVARIANT TypeOK
INVARIANT I_CapOK
INVARIANT I_LendOK
INVARIANT I_ReportOK
INVARIANT I_CurOK
INVARIANT I_NoErr
INVARIANT I_BlockOK
CHECK_DEADLOCK FALSE
INVARIANT I_NoLostWakeup
