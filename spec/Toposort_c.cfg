\* (c) 4 nodes, hard + weak, <= 5 edges
SPECIFICATION Spec
CONSTANTS
    N = 4
    EdgeKinds = {"h", "w"}
    MaxEdges = 5
    DangKinds = {}
    Emit = TRUE
INVARIANT TypeOK
INVARIANT SetsOK
INVARIANT PermOK
INVARIANT HardOK
INVARIANT CycleIff
INVARIANT WeakOK
INVARIANT CtrlOK
INVARIANT UnresOK
INVARIANT UnresOK2
INVARIANT CleanOK
INVARIANT EmitOut
CHECK_DEADLOCK FALSE
