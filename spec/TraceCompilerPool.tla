------------------------- MODULE TraceCompilerPool -------------------------
(***************************************************************************)
(* Trace validation for CompilerPool: histories recorded from the real     *)
(* AbstractPool / BaseWorker / worker.py (harness/c17.py).  Each pool call *)
(* is logged as its spec actions (Compile, WorkerSync, [WorkerCompile],    *)
(* Reply | TxCompile, TxWorker, TxReply | TxEnd | Respawn); the projection *)
(* of belief and actual state is logged after the last action of a call.   *)
(* Verdict lines:  "ACCEPT" t | "REJECT" t l | "INV" name t l              *)
(***************************************************************************)
EXTENDS CompilerPool, Sequences, Json, IOUtils, TLCExt

Traces == JsonDeserialize(IOEnv.TRACE_FILE)

VARIABLES t, l, rej
tvars == <<belief, actual, req, cli, nstate, act, t, l, rej>>

Ev == Traces[t][l]

TraceInit == Init /\ t \in 1..Len(Traces) /\ l = 1 /\ rej = FALSE

Matched ==
    \/ Ev.a = "Compile" /\ Compile(Ev.w, Ev.d, Ev.args)
    \/ Ev.a = "WorkerSync" /\ WorkerSync(Ev.w, Ev.x)
    \/ Ev.a = "WorkerCompile" /\ WorkerCompile(Ev.w, Ev.ok, Ev.y)
    \/ Ev.a = "Reply" /\ Reply(Ev.w)
    \/ Ev.a = "TxCompile" /\ TxCompile(Ev.w)
    \/ Ev.a = "TxWorker" /\ TxWorker(Ev.w, Ev.ok, Ev.y)
    \/ Ev.a = "TxReply" /\ TxReply(Ev.w)
    \/ Ev.a = "TxEnd" /\ TxEnd
    \/ Ev.a = "Respawn" /\ Respawn(Ev.w)

ProjW(w) == [belief |-> belief[w], actual |-> actual[w]]

StateMatches ==
    (~Ev.hs) \/
      /\ \A w \in Workers : belief'[w] = Ev.s.belief[w] /\ actual'[w] = Ev.s.actual[w]
      /\ cli'.sid = Ev.s.cli
      /\ nstate' = Ev.s.nstate

StepReal ==
    /\ l <= Len(Traces[t]) /\ ~rej
    /\ Matched
    /\ StateMatches
    /\ l' = l + 1
    /\ UNCHANGED <<t, rej>>

Stuck ==
    /\ l <= Len(Traces[t]) /\ ~rej
    /\ ~ENABLED StepReal
    /\ rej' = TRUE
    /\ PrintT(<<"REJECT", t, l>>)
    /\ UNCHANGED <<belief, actual, req, cli, nstate, act, t, l>>

TraceNext == StepReal \/ Stuck
TraceSpec == TraceInit /\ [][TraceNext]_tvars

Report ==
    /\ (l = Len(Traces[t]) + 1 /\ ~rej) => PrintT(<<"ACCEPT", t>>)
    /\ ~UsesSupplied => PrintT(<<"INV", "UsesSupplied", t, l>>)
    /\ ~TxStateRight => PrintT(<<"INV", "TxStateRight", t, l>>)
    /\ ~BeliefSound => PrintT(<<"INV", "BeliefSound", t, l>>)
=============================================================================
