-------------------------------- MODULE Caps --------------------------------
(***************************************************************************)
(* C08: which capability flags a statement MUST carry.                     *)
(*                                                                         *)
(* A statement is described abstractly: its kind, and for query-like       *)
(* statements the mutating LEAF it contains (insert / update / delete /    *)
(* call of a user function whose body modifies data / none) and the        *)
(* NESTING CONTEXT in which the leaf sits.  ExpectedCaps is the reference: *)
(* MODIFICATIONS iff executing the statement can write data, whatever the  *)
(* nesting; DDL for schema and migration commands; TRANSACTION for         *)
(* transaction control; SESSION_CONFIG / PERSISTENT_CONFIG for             *)
(* configuration commands by scope.  A script carries the union.           *)
(* Every combination is one initial state; TLC prints it with the expected *)
(* flags, harness/c08.py renders it as EdgeQL, compiles it with the real   *)
(* server compiler and compares.                                           *)
(***************************************************************************)
EXTENDS Naturals, Sequences, FiniteSets, TLC

\* fn_withdml: a function whose only DML sits in a WITH binding of its body;
\* fn_chain: top() -> mid() -> leaf(), where leaf() was ALTERed from a pure
\* body to an inserting one after top() and mid() were created
Leaves == {"none", "insert", "update", "delete", "fn_insert", "fn_update",
           "fn_withdml", "fn_chain"}
\* where the (possibly mutating) leaf expression is placed
Contexts == {"top", "with_binding", "for_body", "shape_element", "subquery_in_filter_of_dml",
             "unless_conflict_else", "func_arg", "tuple_element", "set_element",
             "coalesce_rhs", "if_branch", "nested_for_in_with", "insert_link_value",
             "update_set_value", "select_wrapper", "group_by_subject"}
OtherKinds == {"ddl_create_type", "ddl_alter", "start_migration", "populate_migration",
               "commit_migration", "abort_migration", "start_tx", "commit", "rollback",
               "declare_savepoint", "release_savepoint", "rollback_to_savepoint",
               "configure_session", "reset_session", "set_alias", "set_module",
               "configure_database", "configure_instance", "describe", "select_only"}

\* SET GLOBAL takes an arbitrary expression: it is a session command AND
\* whatever its value expression does
Stmts == [kind : {"query"}, leaf : Leaves, ctx : Contexts]
         \cup [kind : OtherKinds, leaf : {"none"}, ctx : {"top"}]
         \cup [kind : {"set_global"}, leaf : Leaves,
                ctx : {"func_arg", "with_binding", "for_body", "if_branch"}]

VARIABLES script   \* sequence of 1..2 statements
vars == <<script>>

Init == \/ \E s \in Stmts : script = <<s>>
        \/ \E s \in Stmts, t \in [kind : {"query"}, leaf : Leaves, ctx : {"top", "with_binding"}] :
              s.kind = "query" /\ script = <<s, t>>
Next == UNCHANGED vars
Spec == Init /\ [][Next]_vars

Writes(s) == s.kind \in {"query", "set_global"} /\ s.leaf # "none"

CapsOf(s) ==
    (IF Writes(s) THEN {"MODIFICATIONS"} ELSE {})
    \cup (IF s.kind \in {"ddl_create_type", "ddl_alter", "start_migration", "populate_migration",
                         "commit_migration", "abort_migration"} THEN {"DDL"} ELSE {})
    \cup (IF s.kind \in {"start_tx", "commit", "rollback", "declare_savepoint",
                         "release_savepoint", "rollback_to_savepoint"} THEN {"TRANSACTION"} ELSE {})
    \cup (IF s.kind \in {"configure_session", "reset_session", "set_alias", "set_module",
                         "set_global"}
          THEN {"SESSION_CONFIG"} ELSE {})
    \cup (IF s.kind \in {"configure_database", "configure_instance"}
          THEN {"PERSISTENT_CONFIG"} ELSE {})

ExpectedCaps == UNION {CapsOf(script[i]) : i \in 1..Len(script)}

\* a statement without a write capability performs no write
ReadOnlyOK == ("MODIFICATIONS" \notin ExpectedCaps) => \A i \in 1..Len(script) : ~Writes(script[i])

EmitOut == PrintT("OUT " \o ToString(<<script, ExpectedCaps>>))
=============================================================================
