\* exhaustive safety: 2 databases, capacity 2, 2 clients, <= 2 acquires, no connect failures
SPECIFICATION Spec
CONSTANTS
    DBs = {"d1", "d2"}
    Clients = {"c1", "c2"}
    MaxCap = 2
    Retries = 1
    TaskIds = {1, 2, 3, 4, 5}
    MaxConnId = 4
    FailBudget = 0
    MaxOps = 2
    TrackAct = FALSE
    FairPolicy = FALSE
CONSTRAINT Bound
INVARIANT TypeOK
INVARIANT I_CapOK
INVARIANT I_LendOK
INVARIANT I_ReportOK
INVARIANT I_CurOK
INVARIANT I_NoErr
INVARIANT I_BlockOK
CHECK_DEADLOCK FALSE
INVARIANT I_NoLostWakeup
