---------------------------- MODULE CompilerPool ----------------------------
(***************************************************************************)
(* edb/server/compiler_pool : AbstractPool.compile / compile_in_tx,        *)
(* BaseWorker.call, worker.py (__sync__, compile, compile_in_tx)           *)
(*                                                                         *)
(* The server keeps, per worker, a BELIEF about what the worker process    *)
(* holds (worker._dbs, _global_schema_pickle, _system_config,              *)
(* _last_pickled_state) and transmits only the parts whose IDENTITY (`is`) *)
(* differs from what the caller supplies.  The worker process holds the    *)
(* ACTUAL state (module globals DBS, GLOBAL_SCHEMA, INSTANCE_CONFIG,       *)
(* LAST_STATE).  C17: what the worker hands to the compiler is what the    *)
(* caller supplied; a failed transfer never leaves belief ahead of actual. *)
(*                                                                         *)
(* Values are identities 1..NVals; identities in Falsy are empty           *)
(* containers (an empty immutables.Map is falsy in Python).  0 = None.     *)
(*                                                                         *)
(* Two historical defects of the implementation are kept as switches so    *)
(* that the configs CompilerPool_bug1/2.cfg document what TLC finds when   *)
(* they are on:  OrBug  (sync callback used `x or old`),  EarlyCommit      *)
(* (__sync__ stored the per-database update before unpickling the global   *)
(* schema / instance config).  The repaired code corresponds to both FALSE.*)
(***************************************************************************)
EXTENDS Naturals, FiniteSets, TLC

CONSTANTS Workers, DBs, NVals, Falsy, MaxStates, OrBug, EarlyCommit, DirtyBug,
          FieldVals,  \* [Fields -> SUBSET Vals] : which identities callers present per field
          Sequential  \* TRUE: at most one call in flight (behaviours replayable call by call)

Vals == 1..NVals
None == 0
DF == {"us", "rc", "dc"}          \* per-database fields
GF == {"gs", "sc"}                \* per-instance fields
Fields == DF \cup GF
\* order in which worker.__sync__ unpickles
SyncOrder == <<"us", "rc", "dc", "gs", "sc">>

NoDb == [us |-> None, rc |-> None, dc |-> None]
NoCli == [sid |-> None, db |-> "-", us |-> None]
IsFalsy(f, v) == f \in {"rc", "dc"} /\ v \in Falsy

VARIABLES
    belief,   \* [w -> [dbs: [DBs -> rec], gs, sc, lps]]   server side
    actual,   \* [w -> [dbs: [DBs -> rec], gs, sc, last: [id, dirty]]]  worker process
    req,      \* [w -> request in flight or phase "idle"]
    cli,      \* the transaction-carrying client: [sid, db, us] - the state it holds
              \* (sid 0 = none) and the database / root user schema of its transaction
    nstate,   \* fresh state ids
    act       \* history only: the last action with its parameters

vars == <<belief, actual, req, cli, nstate, act>>
View == <<belief, actual, req, cli, nstate>>
OthersIdle(w) == Sequential => \A o \in Workers \ {w} : req[o].phase = "idle"

NoArgs == [us |-> None, rc |-> None, gs |-> None, dc |-> None, sc |-> None]
Idle == [phase |-> "idle", kind |-> "none", db |-> "-", args |-> NoArgs, pre |-> NoArgs,
         used |-> NoArgs, newstate |-> None, us |-> None, state |-> None,
         marker |-> FALSE, bydb |-> FALSE, usedstate |-> None, useddirty |-> FALSE,
         usedroot |-> None]

InitW == [dbs |-> [d \in DBs |-> NoDb], gs |-> 1, sc |-> 1]

Init ==
    /\ belief = [w \in Workers |-> [dbs |-> [d \in DBs |-> NoDb], gs |-> 1, sc |-> 1, lps |-> None]]
    /\ actual = [w \in Workers |-> [dbs |-> [d \in DBs |-> NoDb], gs |-> 1, sc |-> 1,
                                    last |-> [id |-> None, dirty |-> FALSE]]]
    /\ req = [w \in Workers |-> Idle]
    /\ cli = NoCli
    /\ nstate = 0
    /\ act = <<"Init">>

Known(b, d) == b.dbs[d].us # None

-----------------------------------------------------------------------------
(* AbstractPool._compute_compile_preargs : what is transmitted, what the    *)
(* callback will record                                                      *)
Pre(w, d, a) ==
    LET b == belief[w] IN
    IF ~Known(b, d) THEN a
    ELSE [f \in Fields |->
            LET cur == IF f \in DF THEN b.dbs[d][f] ELSE b[f] IN
            IF cur # a[f] THEN a[f] ELSE None]

(* a client calls pool.compile(db, us, gs, rc, dc, sc): worker w acquired *)
Compile(w, d, a) ==
    /\ req[w].phase = "idle" /\ OthersIdle(w)
    /\ act' = <<"Compile", w, d, a>>
    /\ req' = [req EXCEPT ![w] = [Idle EXCEPT !.phase = "sent", !.kind = "compile", !.db = d,
                                                !.args = a, !.pre = Pre(w, d, a)]]
    /\ UNCHANGED <<belief, actual, cli, nstate>>

(* worker.__sync__ with a failure point fp (a transmitted field whose        *)
(* pickle.loads raises) or "none"                                            *)
Transmitted(r) == {f \in Fields : r.pre[f] # None}

SyncResult(w, fp) ==
    LET r == req[w]  a == actual[w]  d == r.db
        idx(f) == CHOOSE i \in 1..5 : SyncOrder[i] = f
        before(f) == fp = "none" \/ idx(f) < idx(fp)
        dbfail == fp \in DF
        \* per-database part is committed as one update, after all three loads
        newdb == [f \in DF |-> IF r.pre[f] # None THEN r.pre[f] ELSE a.dbs[d][f]]
        commitdb == IF EarlyCommit THEN ~dbfail ELSE fp = "none"
        a1 == IF commitdb THEN [a EXCEPT !.dbs[d] = newdb] ELSE a
        commitgs == r.pre["gs"] # None /\ (IF EarlyCommit THEN before("gs") /\ fp # "gs" ELSE fp = "none")
        a2 == IF commitgs THEN [a1 EXCEPT !.gs = r.pre["gs"]] ELSE a1
        commitsc == r.pre["sc"] # None /\ fp = "none"
        a3 == IF commitsc THEN [a2 EXCEPT !.sc = r.pre["sc"]] ELSE a2
    IN a3

(* the worker does not know the database and not all three parts came:      *)
(* `assert ... is not None` -> FailedStateSync                               *)
AssertFails(w) ==
    LET r == req[w] IN
    ~Known(actual[w], r.db) /\ \E f \in DF : r.pre[f] = None

WorkerSync(w, fp) ==
    /\ req[w].phase = "sent" /\ req[w].kind = "compile"
    /\ act' = <<"WorkerSync", w, fp>>
    /\ fp \in Transmitted(req[w]) \cup {"none"}
    \* an empty container always unpickles
    /\ fp # "none" => ~IsFalsy(fp, req[w].pre[fp])
    /\ IF AssertFails(w)
       THEN /\ req' = [req EXCEPT ![w].phase = "syncfail"]
            /\ UNCHANGED actual
       ELSE /\ actual' = [actual EXCEPT ![w] = SyncResult(w, fp)]
            /\ req' = [req EXCEPT ![w].phase = IF fp = "none" THEN "synced" ELSE "syncfail"]
    /\ UNCHANGED <<belief, cli, nstate>>

(* COMPILER.compile_serialized_request(db.user_schema, GLOBAL_SCHEMA, ...)  *)
Used(w) == LET a == actual[w]  d == req[w].db IN
           [us |-> a.dbs[d].us, rc |-> a.dbs[d].rc, dc |-> a.dbs[d].dc,
            gs |-> a.gs, sc |-> a.sc]

WorkerCompile(w, ok, intx) ==
    /\ req[w].phase = "synced"
    /\ act' = <<"WorkerCompile", w, ok, intx>>
    /\ IF ok
       THEN /\ nstate' = IF intx THEN nstate + 1 ELSE nstate
            /\ actual' = [actual EXCEPT ![w].last =
                              [id |-> IF intx THEN nstate + 1 ELSE None, dirty |-> FALSE]]
            /\ req' = [req EXCEPT ![w].phase = "ok", ![w].used = Used(w),
                                  ![w].newstate = IF intx THEN nstate + 1 ELSE None]
       ELSE /\ req' = [req EXCEPT ![w].phase = "err", ![w].used = Used(w)]
            /\ UNCHANGED <<actual, nstate>>
    /\ UNCHANGED <<belief, cli>>

(* sync_worker_state_cb *)
Callback(w) ==
    LET r == req[w]  b == belief[w]  d == r.db
        keep(f, new, old) == IF new = None THEN old
                             ELSE IF OrBug /\ IsFalsy(f, new) /\ Known(b, d) THEN old
                             ELSE new
        nd == [f \in DF |-> keep(f, r.pre[f], b.dbs[d][f])]
    IN [b EXCEPT !.dbs[d] = nd,
                 !.gs = IF r.pre["gs"] # None THEN r.pre["gs"] ELSE @,
                 !.sc = IF r.pre["sc"] # None THEN r.pre["sc"] ELSE @]

(* BaseWorker.call returns / raises; AbstractPool.compile finishes *)
Reply(w) ==
    /\ req[w].phase \in {"ok", "err", "syncfail"} /\ req[w].kind = "compile"
    /\ act' = <<"Reply", w>>
    /\ belief' = [belief EXCEPT ![w] =
          LET b1 == IF req[w].phase = "syncfail" THEN belief[w] ELSE Callback(w) IN
          IF req[w].phase = "ok" THEN [b1 EXCEPT !.lps = req[w].newstate] ELSE b1]
    \* the tracked client adopts the new transaction state only if it is not
    \* already inside a transaction (otherwise the call was somebody else's)
    /\ cli' = IF req[w].phase = "ok" /\ req[w].newstate # None /\ cli.sid = None
              THEN [sid |-> req[w].newstate, db |-> req[w].db, us |-> req[w].args.us]
              ELSE cli
    /\ req' = [req EXCEPT ![w] = Idle]
    /\ UNCHANGED <<actual, nstate>>

-----------------------------------------------------------------------------
(* compile_in_tx(dbname, user_schema_pickle, txid, pickled_state, ...)      *)
TxCompile(w) ==
    /\ req[w].phase = "idle" /\ cli.sid # None /\ OthersIdle(w)
    /\ act' = <<"TxCompile", w>>
    \* _acquire_worker prefers an idle worker that already has the state
    /\ (belief[w].lps = cli.sid
        \/ ~\E o \in Workers : req[o].phase = "idle" /\ belief[o].lps = cli.sid)
    /\ LET d == cli.db  us == cli.us
           marker == belief[w].lps = cli.sid
           bydb == ~marker /\ Known(belief[w], d) /\ belief[w].dbs[d].us = us
       IN req' = [req EXCEPT ![w] =
                    [Idle EXCEPT !.phase = "sent", !.kind = "tx", !.db = d, !.us = us,
                                 !.state = cli.sid, !.marker = marker, !.bydb = bydb]]
    /\ UNCHANGED <<belief, actual, cli, nstate>>

TxWorker(w, ok, dirties) ==
    /\ req[w].phase = "sent" /\ req[w].kind = "tx"
    /\ act' = <<"TxWorker", w, ok, dirties>>
    /\ LET r == req[w]  a == actual[w]
           \* the state object the compiler works on, and its root user schema
           sid == IF r.marker THEN a.last.id ELSE r.state
           sdirty == IF r.marker THEN a.last.dirty ELSE FALSE
           root == IF r.marker THEN r.us    \* root schema is part of the kept object
                   ELSE IF r.bydb THEN a.dbs[r.db].us ELSE r.us
       IN
       /\ req' = [req EXCEPT ![w].phase = IF ok THEN "ok" ELSE "err",
                             ![w].usedstate = sid, ![w].useddirty = sdirty,
                             ![w].usedroot = root,
                             ![w].newstate = IF ok THEN nstate + 1 ELSE None]
       /\ nstate' = IF ok THEN nstate + 1 ELSE nstate
       /\ actual' = IF ok THEN [actual EXCEPT ![w].last = [id |-> nstate + 1, dirty |-> FALSE]]
                    ELSE IF r.marker /\ dirties
                         \* the rejected statement mutated LAST_STATE in place
                         \* before raising (dbstate.py works on the live object)
                         THEN [actual EXCEPT ![w].last.dirty = TRUE]
                    ELSE actual
    /\ UNCHANGED <<belief, cli>>

TxReply(w) ==
    /\ req[w].phase \in {"ok", "err"} /\ req[w].kind = "tx"
    /\ act' = <<"TxReply", w>>
    /\ IF req[w].phase = "ok"
       THEN /\ belief' = [belief EXCEPT ![w].lps = req[w].newstate]
            /\ cli' = [cli EXCEPT !.sid = req[w].newstate]
       ELSE /\ belief' = IF DirtyBug THEN belief
                         \* repaired: forget the worker-side state after a failure
                         ELSE [belief EXCEPT ![w].lps = None]
            /\ UNCHANGED cli
    /\ req' = [req EXCEPT ![w] = Idle]
    /\ UNCHANGED <<actual, nstate>>

(* the transaction ends (COMMIT / ROLLBACK executed): client drops the state *)
TxEnd == cli.sid # None /\ (\A w \in Workers : req[w].kind # "tx")
         /\ (Sequential => \A w \in Workers : req[w].phase = "idle")
         /\ cli' = NoCli /\ act' = <<"TxEnd">> /\ UNCHANGED <<belief, actual, req, nstate>>

(* the worker process dies and is replaced: both sides restart from the     *)
(* same init args                                                            *)
Respawn(w) ==
    /\ req[w].phase = "idle" /\ OthersIdle(w)
    /\ act' = <<"Respawn", w>>
    /\ belief' = [belief EXCEPT ![w] = [dbs |-> InitW.dbs, gs |-> 1, sc |-> 1, lps |-> None]]
    /\ actual' = [actual EXCEPT ![w] = [dbs |-> InitW.dbs, gs |-> 1, sc |-> 1,
                                        last |-> [id |-> None, dirty |-> FALSE]]]
    /\ UNCHANGED <<req, cli, nstate>>

ArgSet == [us : FieldVals["us"], rc : FieldVals["rc"], gs : FieldVals["gs"],
           dc : FieldVals["dc"], sc : FieldVals["sc"]]
FV_all == [f \in Fields |-> Vals]
FV_us == [f \in Fields |-> IF f = "us" THEN Vals ELSE {1}]
FV_db == [f \in Fields |-> IF f \in DF THEN Vals ELSE {1}]

Next ==
    \/ \E w \in Workers, d \in DBs, a \in ArgSet : Compile(w, d, a)
    \/ \E w \in Workers, fp \in Fields \cup {"none"} : WorkerSync(w, fp)
    \/ \E w \in Workers, ok \in BOOLEAN, intx \in BOOLEAN : WorkerCompile(w, ok, intx)
    \/ \E w \in Workers : Reply(w)
    \/ \E w \in Workers : TxCompile(w)
    \/ \E w \in Workers, ok \in BOOLEAN, di \in BOOLEAN : TxWorker(w, ok, di)
    \/ \E w \in Workers : TxReply(w)
    \/ TxEnd
    \/ \E w \in Workers : Respawn(w)

Spec == Init /\ [][Next]_vars

-----------------------------------------------------------------------------
(* C17 *)
(* the five values handed to the compiler are the five the caller supplied *)
UsesSupplied ==
    \A w \in Workers :
        (req[w].phase \in {"ok", "err"} /\ req[w].kind = "compile") =>
            req[w].used = req[w].args

(* the connection state used in a transaction is the caller's, unmodified,  *)
(* on top of the caller's user schema                                        *)
TxStateRight ==
    \A w \in Workers :
        (req[w].phase \in {"ok", "err"} /\ req[w].kind = "tx") =>
            /\ req[w].usedstate = req[w].state
            /\ ~req[w].useddirty
            /\ req[w].usedroot = req[w].us

(* while no call is in flight the server's belief equals what the worker    *)
(* holds: a failed state transfer never leaves belief ahead of actual       *)
BeliefSound ==
    \A w \in Workers : req[w].phase = "idle" =>
        /\ \A d \in DBs : Known(belief[w], d) => belief[w].dbs[d] = actual[w].dbs[d]
        /\ belief[w].gs = actual[w].gs /\ belief[w].sc = actual[w].sc
        /\ (belief[w].lps # None) =>
               (actual[w].last.id = belief[w].lps /\ ~actual[w].last.dirty)

Bound == nstate <= MaxStates
=============================================================================
