SPECIFICATION Spec
CONSTANTS
    TypeNames = {"A", "B"}
    PtrNames = {"p"}
    MaxLen = 2
    Emit = TRUE
INVARIANT WF
INVARIANT EmitOut
CHECK_DEADLOCK FALSE
