\* (s) 2 nodes smoke
SPECIFICATION Spec
CONSTANTS
    N = 2
    EdgeKinds = {"h", "w", "m", "c"}
    MaxEdges = 4
    DangKinds = {}
    Emit = TRUE
INVARIANT TypeOK
INVARIANT SetsOK
INVARIANT PermOK
INVARIANT HardOK
INVARIANT CycleIff
INVARIANT WeakOK
INVARIANT CtrlOK
INVARIANT UnresOK
INVARIANT UnresOK2
INVARIANT CleanOK
INVARIANT EmitOut
PROPERTY Terminates
CHECK_DEADLOCK FALSE
