------------------------------ MODULE TxState ------------------------------
(***************************************************************************)
(* C09: what a PostgreSQL-style transaction exposes to each statement.     *)
(*                                                                         *)
(* REFERENCE semantics (this module): the session sees a triple            *)
(*   <<schema, module alias, session setting>>                             *)
(* START TRANSACTION snapshots it (`base`); DECLARE SAVEPOINT n pushes a   *)
(* named snapshot; RELEASE n pops down to and including the latest n and   *)
(* keeps the changes; ROLLBACK TO n pops the savepoints declared after the *)
(* latest n, restores its snapshot and clears the error state; ROLLBACK    *)
(* restores `base`; COMMIT makes the current triple the new baseline.      *)
(* A statement that is rejected by the compiler, or compiles but fails in  *)
(* the backend, has no effect on the triple; inside a transaction it puts  *)
(* the transaction in the failed state where only ROLLBACK and ROLLBACK TO *)
(* SAVEPOINT are accepted.  Savepoint commands and COMMIT outside a        *)
(* transaction block are rejected; START inside one is rejected.           *)
(*                                                                         *)
(* Every history up to MaxLen is one state (hist); each prints the triple  *)
(* the NEXT statement must be compiled against.  harness/c09.py runs the   *)
(* same history through the real worker.compile / compile_in_tx ->         *)
(* Compiler -> dbstate stack with a transcription of the server's txid     *)
(* protocol and probes what actually resolves.                             *)
(***************************************************************************)
EXTENDS Naturals, Sequences, FiniteSets, TLC

CONSTANTS SpNames, Aliases, Settings, MaxLen, Emit,
          Core   \* TRUE: only the in-transaction core alphabet (savepoints + DDL), after START

VARIABLES cur, base, frames, inTx, err, hist, last
vars == <<cur, base, frames, inTx, err, hist, last>>
\* cur/base : [schema: set of statement positions whose DDL is visible,
\*             alias: alias value, cfg: setting value]
\* frames   : sequence of [name, snap]

Init ==
    /\ cur = [schema |-> {}, alias |-> "default", cfg |-> 0]
    /\ base = cur
    /\ frames = <<>>
    /\ inTx = FALSE /\ err = FALSE
    /\ hist = <<>> /\ last = "ok"

Pos == Len(hist) + 1          \* position of the statement being executed

Do(op, c, b, f, t, e, outcome) ==
    /\ Len(hist) < MaxLen
    /\ hist' = Append(hist, op)
    /\ cur' = c /\ base' = b /\ frames' = f /\ inTx' = t /\ err' = e
    /\ last' = outcome

\* a statement refused: no effect on the triple; fails the transaction if any
Refuse(op) == Do(op, cur, base, frames, inTx, IF inTx THEN TRUE ELSE err, "rejected")
\* a statement refused because the transaction is already failed
Ignored(op) == Do(op, cur, base, frames, inTx, err, "rejected")

HasSp(n) == \E i \in 1..Len(frames) : frames[i].name = n
LastSp(n) == CHOOSE i \in 1..Len(frames) :
                frames[i].name = n /\ \A j \in (i + 1)..Len(frames) : frames[j].name # n

Start ==
    LET op == <<"START">> IN
    IF err THEN Ignored(op)
    ELSE IF inTx THEN Refuse(op)
    ELSE Do(op, cur, cur, <<>>, TRUE, FALSE, "ok")

Commit(fails) ==
    LET op == <<"COMMIT", fails>> IN
    IF err THEN Ignored(op)
    ELSE IF ~inTx THEN Refuse(op)
    ELSE IF fails THEN Do(op, base, base, <<>>, FALSE, FALSE, "failed")
    ELSE Do(op, cur, cur, <<>>, FALSE, FALSE, "ok")

Rollback ==
    LET op == <<"ROLLBACK">> IN
    IF inTx THEN Do(op, base, base, <<>>, FALSE, FALSE, "ok")
    ELSE Do(op, cur, base, frames, FALSE, FALSE, "ok")

Declare(n) ==
    LET op == <<"DECLARE", n>> IN
    IF err THEN Ignored(op)
    ELSE IF ~inTx THEN Refuse(op)
    ELSE Do(op, cur, base, Append(frames, [name |-> n, snap |-> cur]), TRUE, FALSE, "ok")

Release(n) ==
    LET op == <<"RELEASE", n>> IN
    IF err THEN Ignored(op)
    ELSE IF ~inTx \/ ~HasSp(n) THEN Refuse(op)
    ELSE Do(op, cur, base, SubSeq(frames, 1, LastSp(n) - 1), TRUE, FALSE, "ok")

RollbackTo(n) ==
    LET op == <<"ROLLBACKTO", n>> IN
    IF ~inTx THEN Refuse(op)
    ELSE IF ~HasSp(n) THEN Refuse(op)
    ELSE Do(op, frames[LastSp(n)].snap, base, SubSeq(frames, 1, LastSp(n)),
            TRUE, FALSE, "ok")

\* a statement that changes the triple; `fails`: compiles but fails in the backend
Change(kind, v, fails) ==
    LET op == <<kind, v, fails>>
        c == CASE kind = "DDL" -> [cur EXCEPT !.schema = @ \cup {Pos}]
               [] kind = "ALIAS" -> [cur EXCEPT !.alias = v]
               [] kind = "CFG" -> [cur EXCEPT !.cfg = v]
    IN IF err THEN Ignored(op)
       ELSE IF fails THEN Do(op, cur, base, frames, inTx, inTx, "failed")
       ELSE IF inTx THEN Do(op, c, base, frames, TRUE, FALSE, "ok")
       ELSE Do(op, c, c, <<>>, FALSE, FALSE, "ok")     \* autocommit

\* a statement the compiler rejects (unknown name)
Bad == LET op == <<"BAD">> IN IF err THEN Ignored(op) ELSE Refuse(op)

\* a script rejected part-way, AFTER its first statement was processed by the
\* compiler: RELEASE SAVEPOINT n; SELECT 1  /  DECLARE SAVEPOINT n; SELECT Nope
BadScript(k, n) == LET op == <<k, n>> IN IF err THEN Ignored(op) ELSE Refuse(op)

CoreNext ==
    \/ (hist = <<>> /\ Start)
    \/ (hist # <<>> /\
          \/ \E n \in SpNames : Declare(n) \/ RollbackTo(n)
          \/ Release("a")
          \/ Change("DDL", 0, FALSE))

FullNext ==
    \/ Start \/ Rollback \/ Bad
    \/ \E f \in BOOLEAN : Commit(f)
    \/ \E n \in SpNames : Declare(n) \/ Release(n) \/ RollbackTo(n)
    \/ \E n \in SpNames : BadScript("BADREL", n) \/ BadScript("BADDECL", n)
    \/ \E f \in BOOLEAN : Change("DDL", 0, f)
    \/ \E a \in Aliases, f \in BOOLEAN : Change("ALIAS", a, f)
    \/ \E s \in Settings, f \in BOOLEAN : Change("CFG", s, f)

Next == IF Core THEN CoreNext ELSE FullNext
Spec == Init /\ [][Next]_vars

-----------------------------------------------------------------------------
TypeOK == /\ inTx \in BOOLEAN /\ err \in BOOLEAN
          /\ (~inTx => (frames = <<>> /\ ~err /\ base = cur))
          /\ (err => inTx)

\* snapshots only ever contain DDL that happened before them
FramesOK == \A i \in 1..Len(frames) : frames[i].snap.schema \subseteq 1..Len(hist)

\* ROLLBACK restores exactly the state at transaction start
RollbackRestores == [][(hist' # hist /\ hist'[Len(hist')] = <<"ROLLBACK">> /\ inTx) => cur' = base]_vars

EmitOut ==
    Emit => PrintT("OUT " \o ToString(<<hist, last, inTx, err, cur,
                                         [i \in 1..Len(frames) |-> frames[i].name]>>))
=============================================================================
