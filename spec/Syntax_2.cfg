SPECIFICATION Spec
CONSTANT Depth = 2
INVARIANT EmitOut
CHECK_DEADLOCK FALSE
