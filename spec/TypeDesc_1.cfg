SPECIFICATION Spec
CONSTANTS
    Depth = 1
    Mode = "terms"
INVARIANT EmitOut
CHECK_DEADLOCK FALSE
