SPECIFICATION Spec
INVARIANT Monotone
INVARIANT SecondParent
INVARIANT NonVacuous
INVARIANT EmitOut
CHECK_DEADLOCK FALSE
