SPECIFICATION Spec
CONSTANTS
    DBs = {"d1", "d2"}
    Clients = {"c1", "c2"}
    MaxCap = 1
    Retries = 1
    TaskIds = {1, 2, 3, 4}
    MaxConnId = 3
    FailBudget = 1
    MaxOps = 3
CONSTRAINT Bound
INVARIANT TypeOK
INVARIANT I_CapOK
INVARIANT I_LendOK
INVARIANT I_ReportOK
INVARIANT I_CurOK
INVARIANT I_NoErr
INVARIANT I_BlockOK
CHECK_DEADLOCK FALSE
VIEW View
