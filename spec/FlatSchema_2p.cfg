SPECIFICATION Spec
CONSTANTS
    Ids = {1, 2, 3, 4}
    Mods = {"m", "n"}
    Locals = {"a", "b"}
    MaxLen = 2
    Emit = TRUE
    Preload = TRUE
INVARIANT RefsInv
INVARIANT NameInv
INVARIANT EmitOut
PROPERTY RejectedIsStutter
CHECK_DEADLOCK FALSE
