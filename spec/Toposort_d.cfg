\* (d) 3 nodes, hard+weak, <= 4 edges, one dangling reference, allow_unresolved both ways
SPECIFICATION Spec
CONSTANTS
    N = 3
    EdgeKinds = {"h", "w"}
    MaxEdges = 3
    DangKinds = {"h", "w", "m", "c"}
    Emit = TRUE
INVARIANT TypeOK
INVARIANT SetsOK
INVARIANT PermOK
INVARIANT HardOK
INVARIANT CycleIff
INVARIANT WeakOK
INVARIANT CtrlOK
INVARIANT UnresOK
INVARIANT UnresOK2
INVARIANT CleanOK
INVARIANT EmitOut
PROPERTY Terminates
CHECK_DEADLOCK FALSE
