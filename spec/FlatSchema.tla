----------------------------- MODULE FlatSchema -----------------------------
(***************************************************************************)
(* edb/schema/schema.py : FlatSchema - the persistent maps behind every    *)
(* schema value: id -> data, id -> class, name -> id, global name -> id,   *)
(* and the reverse-reference index refs_to.                                *)
(*                                                                         *)
(* Objects: modules "M" (global names), object types "T" (qualified names, *)
(* need their module), pointers "P" (qualified names; two object-reference *)
(* fields `source` and `target`).  Operations are the FlatSchema API:      *)
(* add, update (rename / set or unset a reference field), delete, discard. *)
(* A failing operation raises and leaves the receiver unchanged.           *)
(*                                                                         *)
(* Invariants (C04, index layer): RefsInv - the reverse index is exactly   *)
(* the inverse of the live objects' reference fields; NameInv - each name  *)
(* index holds exactly the live objects' names.  Every history up to       *)
(* MaxLen is one state (`hist`), printed with the expected observable      *)
(* projection; harness/c04.py replays it on the real FlatSchema and also   *)
(* checks that every EARLIER schema value is unchanged by later calls.     *)
(***************************************************************************)
EXTENDS Naturals, Sequences, FiniteSets, TLC

CONSTANTS Ids, Mods, Locals, MaxLen, Emit,
          Preload   \* TRUE: the initial schema already has modules "m" (id 1) and "n" (id 2)
\* qualified names are <<module, local>>; module names are Mods

None == 0
NoObj == [cls |-> "-", name |-> <<>>, source |-> None, target |-> None]

VARIABLES data, refs, hist, last
vars == <<data, refs, hist, last>>
\* data : [Ids -> object record or NoObj]
\* refs : set of <<target id, referrer id, field>>   (the refs_to index)

Live == {i \in Ids : data[i] # NoObj}
HasModule(m) == \E i \in Live : data[i].cls = "M" /\ data[i].name = <<m>>
NameTaken(n) == \E i \in Live : data[i].name = n

Init ==
    /\ data = [i \in Ids |->
                 IF Preload /\ i = 1 THEN [NoObj EXCEPT !.cls = "M", !.name = <<"m">>]
                 ELSE IF Preload /\ i = 2 THEN [NoObj EXCEPT !.cls = "M", !.name = <<"n">>]
                 ELSE NoObj]
    /\ refs = {}
    /\ hist = <<>>
    /\ last = "ok"

Step(op, d, r, outcome) ==
    /\ Len(hist) < MaxLen
    /\ hist' = Append(hist, op)
    /\ data' = d /\ refs' = r /\ last' = outcome

Reject(op) == Step(op, data, refs, "rejected")

RefsOf(i, rec) ==
    (IF rec.source # None THEN {<<rec.source, i, "source">>} ELSE {})
    \cup (IF rec.target # None THEN {<<rec.target, i, "target">>} ELSE {})

(* schema.add(id, cls, data) *)
Add(i, cls, name, src, tgt) ==
    LET op == <<"add", i, cls, name, src, tgt>>
        rec == [cls |-> cls, name |-> name, source |-> src, target |-> tgt]
    IN IF data[i] # NoObj \/ NameTaken(name)
          \/ (cls # "M" /\ ~HasModule(name[1]))
       THEN Reject(op)
       ELSE Step(op, [data EXCEPT ![i] = rec], refs \cup RefsOf(i, rec), "ok")

(* schema.update_obj(obj, {'name': n}) *)
Rename(i, name) ==
    LET op == <<"rename", i, name>> IN
    IF data[i] = NoObj THEN Reject(op)
    ELSE IF name # data[i].name /\ NameTaken(name) THEN Reject(op)
    ELSE IF data[i].cls # "M" /\ ~HasModule(name[1]) THEN Reject(op)
    ELSE Step(op, [data EXCEPT ![i].name = name], refs, "ok")

(* schema.set_obj_field / unset_obj_field / update_obj on a reference field *)
SetRef(i, f, v) ==
    LET op == <<"setref", i, f, v>> IN
    IF data[i] = NoObj \/ data[i].cls # "P" THEN Reject(op)
    ELSE LET rec == IF f = "source" THEN [data[i] EXCEPT !.source = v]
                                    ELSE [data[i] EXCEPT !.target = v]
         IN Step(op, [data EXCEPT ![i] = rec],
                 (refs \ RefsOf(i, data[i])) \cup RefsOf(i, rec), "ok")

(* schema.delete(obj) : the index layer does not look at referrers *)
Delete(i) ==
    LET op == <<"delete", i>> IN
    IF data[i] = NoObj THEN Reject(op)
    ELSE Step(op, [data EXCEPT ![i] = NoObj], refs \ RefsOf(i, data[i]), "ok")

(* schema.discard(obj) : delete if present, else no-op *)
Discard(i) ==
    LET op == <<"discard", i>> IN
    IF data[i] = NoObj THEN Step(op, data, refs, "ok")
    ELSE Step(op, [data EXCEPT ![i] = NoObj], refs \ RefsOf(i, data[i]), "ok")

QNames == {<<m, l>> : m \in Mods, l \in Locals}
MNames == {<<m>> : m \in Mods}

Next ==
    \/ \E i \in Ids, m \in Mods : Add(i, "M", <<m>>, None, None)
    \/ \E i \in Ids, n \in QNames : Add(i, "T", n, None, None)
    \/ \E i \in Ids, n \in QNames, s \in Ids \cup {None}, t \in Ids \cup {None} : Add(i, "P", n, s, t)
    \/ \E i \in Ids, n \in QNames \cup MNames :
          (data[i] # NoObj => (n \in MNames <=> data[i].cls = "M")) /\ Rename(i, n)
    \/ \E i \in Ids, f \in {"source", "target"}, v \in Ids \cup {None} : SetRef(i, f, v)
    \/ \E i \in Ids : Delete(i)
    \/ \E i \in Ids : Discard(i)

Spec == Init /\ [][Next]_vars

-----------------------------------------------------------------------------
(* the reverse index is exactly the inverse of the live forward references *)
RefsInv == refs = UNION {RefsOf(i, data[i]) : i \in Live}

(* names are unique among live objects and modules exist for qualified names
   at the time of naming (deleting a module later is allowed at this layer) *)
NameInv == \A i, j \in Live : data[i].name = data[j].name => i = j

(* a rejected call is a stutter of the schema *)
RejectedIsStutter == [][last' = "rejected" => (data' = data /\ refs' = refs)]_vars

Referrers(t) == {<<r[2], r[3]>> : r \in {x \in refs : x[1] = t}}

EmitOut ==
    Emit => PrintT("OUT " \o ToString(<<hist, last, data,
                                         [t \in Ids |-> Referrers(t)]>>))
=============================================================================
