SPECIFICATION Spec
CONSTANTS
  Level = 1
  NB = 2
  WantShow = TRUE
INVARIANT Judge
CHECK_DEADLOCK FALSE
