--------------------------- MODULE TraceConnPool ---------------------------
(***************************************************************************)
(* Trace validation for ConnPool: executions recorded from the real        *)
(* edb.server.connpool.pool.Pool (harness/connpool_driver.py) must be      *)
(* behaviours of ConnPool.  One JVM validates a whole batch: the trace     *)
(* index `t` is chosen in the initial state.  Every event carries the      *)
(* environment action with its arguments and the projection of the pool's  *)
(* reported state after it; the policy choices of _tick (`ch`), the        *)
(* "recent connect" flags and GC ages are NOT logged - TLC infers them.    *)
(*                                                                         *)
(* Verdict lines:  "ACCEPT" t | "REJECT" t l | "INV" name t l              *)
(***************************************************************************)
EXTENDS ConnPool, Json, IOUtils, TLCExt

Traces == JsonDeserialize(IOEnv.TRACE_FILE)

VARIABLES t, l, rej
tvars == <<p, gt, hist, t, l, rej>>

Ev == Traces[t][l]

TraceInit == Init /\ t \in 1..Len(Traces) /\ l = 1 /\ rej = FALSE

Matched ==
    \/ Ev.a = "Acquire" /\ Acquire(Ev.c, Ev.db)
    \/ Ev.a = "Release" /\ Release(Ev.c, Ev.x)
    \/ Ev.a = "CompleteConnect" /\ CompleteConnect(Ev.i, Ev.x)
    \/ Ev.a = "CompleteDisconnect" /\ CompleteDisconnect(Ev.i)
    \/ Ev.a = "RunOne" /\ RunOne
    \/ Ev.a = "FireTick" /\ FireTick
    \/ Ev.a = "FireGC" /\ FireGC

StepReal ==
    /\ l <= Len(Traces[t]) /\ ~rej
    /\ Matched
    /\ Proj' = Ev.s
    /\ p'.err = ""
    /\ l' = l + 1
    /\ UNCHANGED <<t, rej>>

Stuck ==
    /\ l <= Len(Traces[t]) /\ ~rej
    /\ ~ENABLED StepReal
    /\ rej' = TRUE
    /\ PrintT(<<"REJECT", t, l>>)
    /\ UNCHANGED <<p, gt, hist, t, l>>

TraceNext == StepReal \/ Stuck
TraceSpec == TraceInit /\ [][TraceNext]_tvars

Report ==
    /\ (l = Len(Traces[t]) + 1 /\ ~rej) => PrintT(<<"ACCEPT", t>>)
    /\ ~CapOK => PrintT(<<"INV", "CapOK", t, l>>)
    /\ ~LendOK => PrintT(<<"INV", "LendOK", t, l>>)
    /\ ~ReportOK => PrintT(<<"INV", "ReportOK", t, l>>)
    /\ ~BlockOK => PrintT(<<"INV", "BlockOK", t, l>>)
    /\ ~NoLostWakeup => PrintT(<<"INV", "NoLostWakeup", t, l>>)
=============================================================================
