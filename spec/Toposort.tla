----------------------------- MODULE Toposort -----------------------------
(***************************************************************************)
(* edb/common/topological.py : sort_ex()                                   *)
(*                                                                         *)
(* The recursive DFS `visit` is modelled with an explicit call stack, the  *)
(* three working sets (visiting - ordered, visiting_weak, visited), the    *)
(* output list and Python exception propagation (try / except CycleError / *)
(* finally), one TLA+ action per program point.  The input graph is chosen *)
(* in Init, so TLC's set of initial states IS the universe of inputs; the  *)
(* algorithm is deterministic, so each graph has exactly one behaviour.    *)
(*                                                                         *)
(* Property C20 is stated as invariants over terminal states (res # "run") *)
(* The terminal states are printed (OUT lines) and compared by the harness *)
(* with the real sort_ex on the very same graphs.                          *)
(***************************************************************************)
EXTENDS Naturals, Sequences, FiniteSets, TLC, SequencesExt

CONSTANTS
    N,          \* number of items; keys are 1..N, graph iteration order 1..N
    EdgeKinds,  \* subset of {"h","w","m","c","b"}: deps, weak_deps, merge, loop_control, deps+weak_deps
    MaxEdges,   \* at most this many non-empty ordered pairs (self loops included)
    DangKinds,  \* kinds a reference to a MISSING item may have: subset of {"h","w","m","c"}
    Emit        \* TRUE: print one OUT line per terminal state

Nodes == 1..N
Pairs == Nodes \X Nodes

VARIABLES
    kind,      \* [Pairs -> {"n"} \cup EdgeKinds]     the graph (never changes)
    dang,      \* [Nodes -> {"n"} \cup DangKinds]     reference to a missing key
    allowU,    \* allow_unresolved
    rev,       \* adjacency sets iterate descending instead of ascending
    stack,     \* call stack of visit() frames, top = last
    visiting,  \* OrderedSet: sequence without repetition
    vweak,     \* visiting_weak
    visited,
    order,
    exc,       \* 0 = no exception in flight, else the CycleError.item
    excPath,   \* CycleError.path
    topi,      \* next key of `for key in graph`
    res        \* "run" | "ok" | "cycle" | "unres"

gvars == <<kind, dang, allowU, rev>>
vars == <<kind, dang, allowU, rev, stack, visiting, vweak, visited, order,
          exc, excPath, topi, res>>

-----------------------------------------------------------------------------
(* adjacency, in the iteration order the code sees *)
Ord(S) == IF rev THEN SetToSortSeq(S, LAMBDA a, b: a > b)
                 ELSE SetToSortSeq(S, LAMBDA a, b: a < b)
\* kind "b": the same key is listed in BOTH deps and weak_deps of the item
Tgt(i, K) == {j \in Nodes : kind[<<i, j>>] \in K}
WeakAdj(i) == Ord(Tgt(i, {"w", "b"}))
\* adj: merge entries are added first, then deps (OrderedSet keeps first add)
HardAdj(i) == Ord(Tgt(i, {"m"})) \o Ord(Tgt(i, {"h", "b"}))
CtrlAdj(i) == Ord(Tgt(i, {"c"}))

Frame(i, fc, wl) == [item |-> i, fc |-> fc, wl |-> wl, phase |-> "enter", idx |-> 1]

Top == stack[Len(stack)]
Pop == SubSeq(stack, 1, Len(stack) - 1)
SetTop(f) == [stack EXCEPT ![Len(stack)] = f]
SeqRemove(s, x) == SelectSeq(s, LAMBDA y: y # x)
InSeq(s, x) == \E k \in 1..Len(s) : s[k] = x

-----------------------------------------------------------------------------
EdgeSets == {E \in SUBSET Pairs : Cardinality(E) <= MaxEdges}

Init ==
    /\ \E E \in EdgeSets : \E f \in [E -> EdgeKinds] :
          kind = [p \in Pairs |-> IF p \in E THEN f[p] ELSE "n"]
    /\ dang \in [Nodes -> {"n"} \cup DangKinds]
    /\ Cardinality({i \in Nodes : dang[i] # "n"}) <= 1
    /\ allowU \in (IF DangKinds = {} THEN {FALSE} ELSE BOOLEAN)
    /\ rev \in BOOLEAN
    /\ stack = <<>> /\ visiting = <<>> /\ vweak = {} /\ visited = {}
    /\ order = <<>> /\ exc = 0 /\ excPath = <<>> /\ topi = 1
    /\ res = "run"

(* graph-building loop: an undefined reference raises unless allowed *)
Unresolved ==
    /\ res = "run" /\ topi = 1 /\ stack = <<>> /\ exc = 0
    /\ ~allowU /\ \E i \in Nodes : dang[i] # "n"
    /\ res' = "unres"
    /\ UNCHANGED <<gvars, stack, visiting, vweak, visited, order, exc, excPath, topi>>

BuildOK == allowU \/ \A i \in Nodes : dang[i] = "n"

(* for key in graph: visit(key) *)
TopNext ==
    /\ res = "run" /\ BuildOK /\ stack = <<>> /\ exc = 0 /\ topi <= N
    /\ stack' = <<Frame(topi, FALSE, FALSE)>>
    /\ topi' = topi + 1
    /\ UNCHANGED <<gvars, visiting, vweak, visited, order, exc, excPath, res>>

(* function entry: cycle test, visited test, add to the working sets *)
Enter ==
    /\ res = "run" /\ stack # <<>> /\ Top.phase = "enter" /\ exc = 0
    /\ LET f == Top IN
       IF InSeq(visiting, f.item) THEN
            \* raise CycleError before the try block: no finally for this frame
            /\ exc' = f.item
            /\ excPath' = SeqRemove(visiting, f.item)
            /\ stack' = Pop
            /\ UNCHANGED <<visiting, vweak>>
       ELSE IF f.item \in visited THEN
            /\ stack' = Pop
            /\ UNCHANGED <<exc, excPath, visiting, vweak>>
       ELSE
            /\ visiting' = Append(visiting, f.item)
            /\ vweak' = IF f.wl THEN vweak \cup {f.item} ELSE vweak
            /\ stack' = SetTop([f EXCEPT !.phase = "weak", !.idx = 1])
            /\ UNCHANGED <<exc, excPath>>
    /\ UNCHANGED <<gvars, visited, order, topi, res>>

AdjOf(f) == CASE f.phase = "weak" -> WeakAdj(f.item)
              [] f.phase = "hard" -> HardAdj(f.item)
              [] f.phase = "ctrl" -> CtrlAdj(f.item)

NextPhase(p) == CASE p = "weak" -> "hard" [] p = "hard" -> "ctrl" [] p = "ctrl" -> "post"

(* one iteration of one of the three for-loops: make the recursive call *)
Call ==
    /\ res = "run" /\ stack # <<>> /\ exc = 0
    /\ Top.phase \in {"weak", "hard", "ctrl"}
    /\ LET f == Top  adj == AdjOf(f) IN
       IF f.idx <= Len(adj) THEN
          stack' = Append(SetTop([f EXCEPT !.idx = f.idx + 1]),
                          Frame(adj[f.idx],
                                f.phase = "ctrl",
                                IF f.phase = "weak" THEN TRUE ELSE f.wl))
       ELSE
          stack' = SetTop([f EXCEPT !.phase = NextPhase(f.phase), !.idx = 1])
    /\ UNCHANGED <<gvars, visiting, vweak, visited, order, exc, excPath, topi, res>>

(* if not for_control: order.append(item); visited.add(item) *)
Post ==
    /\ res = "run" /\ stack # <<>> /\ exc = 0 /\ Top.phase = "post"
    /\ LET f == Top IN
       /\ order' = IF f.fc THEN order ELSE Append(order, f.item)
       /\ visited' = IF f.fc THEN visited ELSE visited \cup {f.item}
       /\ stack' = SetTop([f EXCEPT !.phase = "finally"])
    /\ UNCHANGED <<gvars, visiting, vweak, exc, excPath, topi, res>>

(* a callee raised CycleError into this frame *)
Handle ==
    /\ res = "run" /\ stack # <<>> /\ exc # 0
    /\ Top.phase \in {"weak", "hard", "ctrl"}
    /\ LET f == Top IN
       IF f.phase = "weak" /\ vweak = {} THEN
            \* inner handler of the weak loop swallows: continue the loop
            /\ exc' = 0 /\ excPath' = <<>>
            /\ UNCHANGED stack
       ELSE IF Cardinality(vweak) = 1 THEN
            \* outer handler swallows: the item is abandoned (not emitted)
            /\ exc' = 0 /\ excPath' = <<>>
            /\ stack' = SetTop([f EXCEPT !.phase = "finally"])
       ELSE
            /\ stack' = SetTop([f EXCEPT !.phase = "finally"])
            /\ UNCHANGED <<exc, excPath>>
    /\ UNCHANGED <<gvars, visiting, vweak, visited, order, topi, res>>

(* finally: visiting.remove(item); if weak_link: visiting_weak.remove(item) *)
Finally ==
    /\ res = "run" /\ stack # <<>> /\ Top.phase = "finally"
    /\ LET f == Top IN
       /\ visiting' = SeqRemove(visiting, f.item)
       /\ vweak' = IF f.wl THEN vweak \ {f.item} ELSE vweak
       /\ stack' = Pop
    /\ UNCHANGED <<gvars, visited, order, exc, excPath, topi, res>>

Finish ==
    /\ res = "run" /\ stack = <<>> /\ BuildOK
    /\ \/ /\ exc # 0 /\ res' = "cycle"
       \/ /\ exc = 0 /\ topi > N /\ res' = "ok"
    /\ UNCHANGED <<gvars, stack, visiting, vweak, visited, order, exc, excPath, topi>>

Next == Unresolved \/ TopNext \/ Enter \/ Call \/ Post \/ Handle \/ Finally \/ Finish

Spec == Init /\ [][Next]_vars /\ WF_vars(Next)

-----------------------------------------------------------------------------
(* ---- what C20 demands, over the input graph ---- *)
EdgesOf(K) == {p \in Pairs : kind[p] \in K}
HardE == EdgesOf({"h", "m", "b"})
WeakE == EdgesOf({"w", "b"})
CtrlE == EdgesOf({"c"})

TC(E) ==
    LET R[k \in 0..N] ==
          IF k = 0 THEN E
          ELSE R[k-1] \cup {<<a, c>> \in Pairs :
                              \E b \in Nodes : <<a, b>> \in R[k-1] /\ <<b, c>> \in R[k-1]}
    IN R[N]
Cyclic(E) == \E n \in Nodes : <<n, n>> \in TC(E)

Pos(x) == CHOOSE k \in 1..Len(order) : order[k] = x
Before(a, b) == Pos(a) < Pos(b)

TypeOK ==
    /\ res \in {"run", "ok", "cycle", "unres"}
    /\ vweak \subseteq Nodes /\ visited \subseteq Nodes
    /\ exc \in 0..N /\ topi \in 1..(N + 1)
    /\ \A k \in 1..Len(stack) : stack[k].item \in Nodes

(* working-set discipline while running *)
SetsOK ==
    /\ \A a, b \in 1..Len(visiting) : visiting[a] = visiting[b] => a = b
    /\ \A x \in vweak : InSeq(visiting, x)
    /\ \A a, b \in 1..Len(order) : order[a] = order[b] => a = b
    /\ visited = {order[k] : k \in 1..Len(order)}

(* every item exactly once *)
PermOK == res = "ok" =>
    /\ Len(order) = N
    /\ {order[k] : k \in 1..N} = Nodes

(* each item after all of its hard (deps / merge) dependencies *)
HardOK == res = "ok" => \A p \in HardE : p[1] # p[2] /\ Before(p[2], p[1])

(* a cycle is reported exactly when the hard dependencies are cyclic        *)
(* (loop_control edges take part in cycles exactly like deps do)            *)
CycleIff == res \in {"ok", "cycle"} => ((res = "cycle") <=> Cyclic(HardE \cup CtrlE))

(* soft edges honoured whenever hard+soft(+ctrl) is acyclic *)
WeakOK == (res = "ok" /\ ~Cyclic(HardE \cup WeakE \cup CtrlE)) =>
              \A p \in WeakE : Before(p[2], p[1])

(* loop_control: the dependencies of the controlling item precede *)
CtrlOK == res = "ok" =>
    \A p \in CtrlE : \A d \in Nodes :
        (<<p[2], d>> \in HardE /\ d # p[1]) => Before(d, p[1])

(* undefined references *)
UnresOK == (res = "unres") => (~allowU /\ \E i \in Nodes : dang[i] # "n")
UnresOK2 == (res \in {"ok", "cycle"}) => BuildOK

(* a terminal state is clean *)
CleanOK == res \in {"ok", "cycle"} => (stack = <<>> /\ visiting = <<>> /\ vweak = {})

Terminates == <>(res # "run")

(* ---- conformance output: one line per input graph ---- *)
KindSeq == [k \in 1..(N * N) |-> kind[<<((k - 1) \div N) + 1, ((k - 1) % N) + 1>>]]
DangSeq == [i \in 1..N |-> dang[i]]
EmitOut ==
    (Emit /\ res # "run") =>
        PrintT("OUT " \o ToString(<<N, KindSeq, DangSeq, allowU, rev, res, order, exc, excPath>>))

Terminal == res # "run"
=============================================================================
