SPECIFICATION Spec
CONSTANTS
  Level = 2
  NB = 2
  WantShow = TRUE
INVARIANT Judge
CHECK_DEADLOCK FALSE
