------------------------------ MODULE Policies ------------------------------
(***************************************************************************)
(* C07: which storage a read-only query may read only through a policy     *)
(* filter.                                                                 *)
(*                                                                         *)
(* Schema (fixed shape, policies placed by the configuration):             *)
(*     Owned                      (mixin)                                  *)
(*     Base      { peer -> Base }                                          *)
(*     Mid   extending Base                                                *)
(*     Leaf  extending Mid                                                 *)
(*     Priv  extending Base, Owned          (multiple inheritance)         *)
(*     Holder { one -> Base; multi many -> Mid; lf -> Leaf;                *)
(*              comp := .one[is Mid]; cnt := count(.many) }                *)
(*     alias AllMid := Mid;  alias MidNames := Mid.name;                   *)
(*     global nmid := count(Mid)                                           *)
(*                                                                         *)
(* A configuration places one or two access policies, each on one type and *)
(* each recognisable in SQL by its own marker constant.  Policies are      *)
(* inherited: the policies in force for the storage of a concrete type t   *)
(* are those placed on t or on ANY of its ancestors, through every         *)
(* inheritance path.  A query reads the storage of every descendant of     *)
(* every type it mentions.  The specification derives, for each            *)
(* (configuration, query), the guarded storage and the markers that must   *)
(* filter it; harness/c07.py compiles the query with the real compiler and *)
(* requires that every read of guarded storage in the SQL tree (outside    *)
(* policy bodies, where policies are deliberately not applied) flows       *)
(* through a filter carrying all those markers, and that the IR registers  *)
(* a rewrite for every guarded type the specification predicts.            *)
(***************************************************************************)
EXTENDS Naturals, Sequences, FiniteSets, TLC

Types == {"Owned", "Base", "Mid", "Leaf", "Priv", "Holder"}
Parents(t) == CASE t = "Mid"  -> {"Base"}
                [] t = "Leaf" -> {"Mid"}
                [] t = "Priv" -> {"Base", "Owned"}
                [] OTHER      -> {}
RECURSIVE AncStar(_)
AncStar(t) == {t} \cup UNION {AncStar(p) : p \in Parents(t)}
DescStar(t) == {d \in Types : t \in AncStar(d)}

Kinds == {"allow_select", "allow_all", "deny_select"}
Placeable == {"Owned", "Base", "Mid", "Leaf", "Holder"}
Placements == [ty : Placeable, kind : Kinds]
              \cup {[ty |-> "Holder", kind |-> "uses_global"]}
Configs == {{p} : p \in Placements}
           \cup {{x[1], x[2]} : x \in {y \in Placements \X Placements : y[1].ty # y[2].ty}}

\* policies in force on the storage of t, named by the type they were placed on
Markers(cfg, t) == {p.ty : p \in {q \in cfg : q.ty \in AncStar(t)}}
HasPolicy(cfg, t) == Markers(cfg, t) # {}

\* queries: id |-> the types mentioned at query level (policy bodies excluded)
Queries ==
  [ direct_Owned |-> {"Owned"}, direct_Base |-> {"Base"}, direct_Mid |-> {"Mid"},
    direct_Leaf |-> {"Leaf"}, direct_Priv |-> {"Priv"}, direct_Holder |-> {"Holder"},
    link_one |-> {"Holder", "Base"}, link_many |-> {"Holder", "Mid"},
    link_lf |-> {"Holder", "Leaf"}, link_peer |-> {"Base"},
    back_one |-> {"Base", "Holder"}, back_many |-> {"Mid", "Holder"},
    shape_links |-> {"Holder", "Base", "Mid"},
    shape_nested |-> {"Holder", "Base"},
    isect_leaf |-> {"Base", "Leaf"}, isect_link |-> {"Holder", "Base", "Mid"},
    isect_owned |-> {"Owned", "Priv"}, isect_back |-> {"Mid", "Holder", "Base"},
    agg_count |-> {"Base"}, agg_count_link |-> {"Holder", "Mid"},
    agg_exists |-> {"Leaf"}, agg_in_shape |-> {"Holder", "Mid"},
    sub_filter |-> {"Mid"}, sub_exists |-> {"Holder", "Base"},
    sub_in_filter |-> {"Mid", "Leaf"}, sub_tuple |-> {"Holder", "Base"},
    alias_type |-> {"Mid"}, alias_expr |-> {"Mid"}, alias_in_with |-> {"Mid", "Holder"},
    comp_link |-> {"Holder", "Base", "Mid"}, comp_prop |-> {"Holder", "Mid"},
    global_count |-> {"Mid"}, global_tuple |-> {"Holder", "Mid"},
    global_after_type |-> {"Holder", "Mid"},
    for_link |-> {"Holder", "Base"}, with_binding |-> {"Mid"},
    detached_leaf |-> {"Leaf"}, union_types |-> {"Leaf", "Priv"},
    coalesce_links |-> {"Holder", "Base", "Leaf"}, ifelse_types |-> {"Mid", "Priv"} ]
QueryIds == DOMAIN Queries

StorageRead(q) == UNION {DescStar(t) : t \in Queries[q]}
Guarded(cfg, q) == {t \in StorageRead(q) : HasPolicy(cfg, t)}

VARIABLE cfg
vars == <<cfg>>
Init == cfg \in Configs
Next == UNCHANGED vars
Spec == Init /\ [][Next]_vars

\* model-level facts
\* policies are inherited along every path: a descendant is never less guarded
Monotone == \A t \in Types : \A d \in DescStar(t) : Markers(cfg, t) \subseteq Markers(cfg, d)
\* a type reached through a second parent carries that parent's policies
SecondParent == (\E p \in cfg : p.ty = "Owned") => HasPolicy(cfg, "Priv")
\* every configuration guards something some query reads (non-vacuity)
NonVacuous == \E q \in QueryIds : Guarded(cfg, q) # {}

EmitOut ==
    PrintT("OUT " \o ToString(<<cfg, [q \in QueryIds |->
               [t \in Guarded(cfg, q) |-> Markers(cfg, t)]]>>))
=============================================================================
