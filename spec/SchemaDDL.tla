----------------------------- MODULE SchemaDDL -----------------------------
(***************************************************************************)
(* An abstract user schema and the DDL commands that evolve it             *)
(* (edb/schema/*, edb/pgsql/delta.py, edb/server/compiler/ddl.py).         *)
(*                                                                         *)
(* State: object types (abstract?, one optional base) with pointers:       *)
(* property or link, single/multi, required/optional, target, computed or  *)
(* stored, an optional link property, an optional exclusive constraint.    *)
(* Actions: one per DDL command kind, with the acceptance rules that keep  *)
(* the schema well-formed (WF).  The behaviours of this module are the     *)
(* HISTORIES, PAIRS and CHAINS of schemas over which C02, C03, C05, C10    *)
(* and C11 quantify; TLC (exhaustively on the small instance, by           *)
(* simulation on the larger one) supplies them together with what the spec *)
(* derives for each state:                                                 *)
(*   Layout(schema) - the storage PostgreSQL must hold for it (C05):       *)
(*     a table per object type (abstract ones included); per type and per  *)
(*     pointer it has (own or inherited): a column if the pointer is a     *)
(*     stored single pointer, a link table if it is a stored multi pointer *)
(*     or a stored link with a link property; a column in that link table  *)
(*     for the link property; nothing for computed pointers.               *)
(* harness/schema_common.py renders states as DDL / SDL, runs them through *)
(* the real compiler and compares.                                         *)
(***************************************************************************)
EXTENDS Naturals, Sequences, FiniteSets, TLC

CONSTANTS TypeNames, PtrNames, MaxLen, Emit

NoType == [ex |-> FALSE, abstract |-> FALSE, base |-> "-",
           ptrs |-> [p \in PtrNames |-> [ex |-> FALSE]]]
NoPtr == [ex |-> FALSE]
Scalars == {"str", "int64"}

VARIABLES sch, hist, last
vars == <<sch, hist, last>>
\* sch : [TypeNames -> type record]
\* pointer record: [ex, kind: "prop"|"link", multi, req, target, computed, lprop, excl]

Live == {t \in TypeNames : sch[t].ex}

RECURSIVE Ancestors(_, _)
Ancestors(s, t) == IF s[t].base = "-" THEN {} ELSE {s[t].base} \cup Ancestors(s, s[t].base)
Descendants(s, t) == {d \in TypeNames : s[d].ex /\ t \in Ancestors(s, d)}
OwnPtrs(s, t) == {p \in PtrNames : s[t].ptrs[p].ex}
\* pointers a type has, own or inherited, as <<owner, name>>
AllPtrs(s, t) == {<<o, p>> : o \in {t} \cup Ancestors(s, t), p \in PtrNames} \cap
                 {<<o, p>> \in TypeNames \X PtrNames : s[o].ex /\ s[o].ptrs[p].ex}
HasPtrName(s, t, p) == \E o \in {t} \cup Ancestors(s, t) \cup Descendants(s, t) :
                          s[o].ex /\ s[o].ptrs[p].ex

\* who refers to type t
LinkRefs(s, t) == {<<o, p>> \in TypeNames \X PtrNames :
                     s[o].ex /\ s[o].ptrs[p].ex /\ s[o].ptrs[p].kind = "link"
                     /\ s[o].ptrs[p].target = t}
BaseRefs(s, t) == {d \in TypeNames : s[d].ex /\ s[d].base = t}

Init == /\ sch = [t \in TypeNames |-> NoType]
        /\ hist = <<>>
        /\ last = "ok"

Step(op, s) == /\ Len(hist) < MaxLen
               /\ hist' = Append(hist, op)
               /\ sch' = s /\ last' = "ok"
Refuse(op) == /\ Len(hist) < MaxLen
              /\ hist' = Append(hist, op)
              /\ sch' = sch /\ last' = "rejected"

CreateType(t, abs, b) ==
    LET op == <<"CreateType", t, abs, b>> IN
    IF sch[t].ex \/ (b # "-" /\ (~sch[b].ex \/ b = t)) THEN Refuse(op)
    \* a new child must not bring in names that clash: it has no pointers yet
    ELSE Step(op, [sch EXCEPT ![t] = [NoType EXCEPT !.ex = TRUE, !.abstract = abs, !.base = b]])

DropType(t) ==
    LET op == <<"DropType", t>> IN
    IF ~sch[t].ex \/ LinkRefs(sch, t) \ ({t} \X PtrNames) # {} \/ BaseRefs(sch, t) # {}
    THEN Refuse(op)
    ELSE Step(op, [sch EXCEPT ![t] = NoType])

SetAbstract(t, abs) ==
    LET op == <<"SetAbstract", t, abs>> IN
    IF ~sch[t].ex \/ sch[t].abstract = abs THEN Refuse(op)
    ELSE Step(op, [sch EXCEPT ![t].abstract = abs])

\* re-parent: refused when it would create a cycle or a pointer-name clash
Rebase(t, b) ==
    LET op == <<"Rebase", t, b>>
        s2 == [sch EXCEPT ![t].base = b]
        clash == b # "-" /\ \E p \in PtrNames :
                    (\E o \in {b} \cup Ancestors(sch, b) : sch[o].ptrs[p].ex)
                    /\ (\E o \in {t} \cup Descendants(sch, t) : sch[o].ptrs[p].ex)
    IN IF ~sch[t].ex \/ sch[t].base = b \/ (b # "-" /\ (~sch[b].ex \/ b = t
              \/ t \in Ancestors(sch, b))) \/ clash
       THEN Refuse(op) ELSE Step(op, s2)

PtrOK(s, t, r) ==
    /\ (r.kind = "link" => (r.target \in TypeNames /\ s[r.target].ex))
    /\ (r.kind = "prop" => (r.target \in Scalars /\ ~r.lprop))
    /\ (r.excl => (~r.multi /\ ~r.computed))
    /\ (r.computed => (~r.req /\ ~r.lprop))

AddPtr(t, p, r) ==
    LET op == <<"AddPtr", t, p, r>> IN
    IF ~sch[t].ex \/ HasPtrName(sch, t, p) \/ ~PtrOK(sch, t, r) THEN Refuse(op)
    ELSE Step(op, [sch EXCEPT ![t].ptrs[p] = r])

DropPtr(t, p) ==
    LET op == <<"DropPtr", t, p>> IN
    IF ~sch[t].ex \/ ~sch[t].ptrs[p].ex THEN Refuse(op)
    ELSE Step(op, [sch EXCEPT ![t].ptrs[p] = NoPtr])

\* single <-> multi
SetMulti(t, p, m) ==
    LET op == <<"SetMulti", t, p, m>> IN
    IF ~sch[t].ex \/ ~sch[t].ptrs[p].ex \/ sch[t].ptrs[p].multi = m
       \/ sch[t].ptrs[p].computed \/ (m /\ sch[t].ptrs[p].excl)
    THEN Refuse(op) ELSE Step(op, [sch EXCEPT ![t].ptrs[p].multi = m])

SetRequired(t, p, q) ==
    LET op == <<"SetRequired", t, p, q>> IN
    IF ~sch[t].ex \/ ~sch[t].ptrs[p].ex \/ sch[t].ptrs[p].req = q \/ sch[t].ptrs[p].computed
    THEN Refuse(op) ELSE Step(op, [sch EXCEPT ![t].ptrs[p].req = q])

SetLinkProp(t, p, has) ==
    LET op == <<"SetLinkProp", t, p, has>> IN
    IF ~sch[t].ex \/ ~sch[t].ptrs[p].ex \/ sch[t].ptrs[p].kind # "link"
       \/ sch[t].ptrs[p].lprop = has \/ sch[t].ptrs[p].computed
    THEN Refuse(op) ELSE Step(op, [sch EXCEPT ![t].ptrs[p].lprop = has])

SetExclusive(t, p, e) ==
    LET op == <<"SetExclusive", t, p, e>> IN
    IF ~sch[t].ex \/ ~sch[t].ptrs[p].ex \/ sch[t].ptrs[p].excl = e
       \/ sch[t].ptrs[p].multi \/ sch[t].ptrs[p].computed
    THEN Refuse(op) ELSE Step(op, [sch EXCEPT ![t].ptrs[p].excl = e])

\* computed <-> stored (drops the constraint / link property of a pointer made computed)
SetComputed(t, p, c) ==
    LET op == <<"SetComputed", t, p, c>> IN
    IF ~sch[t].ex \/ ~sch[t].ptrs[p].ex \/ sch[t].ptrs[p].computed = c
       \/ (c /\ (sch[t].ptrs[p].excl \/ sch[t].ptrs[p].lprop \/ sch[t].ptrs[p].req))
    THEN Refuse(op) ELSE Step(op, [sch EXCEPT ![t].ptrs[p].computed = c])

RenameType(t, t2) ==
    LET op == <<"RenameType", t, t2>> IN
    IF ~sch[t].ex \/ sch[t2].ex \/ t = t2 THEN Refuse(op)
    ELSE Step(op, [x \in TypeNames |->
            IF x = t THEN NoType
            ELSE LET src == IF x = t2 THEN sch[t] ELSE sch[x] IN
                 IF ~src.ex THEN src ELSE
                 [src EXCEPT !.base = IF @ = t THEN t2 ELSE @,
                             !.ptrs = [p \in PtrNames |->
                                 IF src.ptrs[p].ex /\ src.ptrs[p].kind = "link"
                                    /\ src.ptrs[p].target = t
                                 THEN [src.ptrs[p] EXCEPT !.target = t2]
                                 ELSE src.ptrs[p]]]])

RenamePtr(t, p, p2) ==
    LET op == <<"RenamePtr", t, p, p2>> IN
    IF ~sch[t].ex \/ ~sch[t].ptrs[p].ex \/ p = p2 \/ HasPtrName(sch, t, p2) THEN Refuse(op)
    ELSE Step(op, [sch EXCEPT ![t].ptrs[p] = NoPtr, ![t].ptrs[p2] = sch[t].ptrs[p]])

PtrRecs(t) ==
    {[ex |-> TRUE, kind |-> k, multi |-> m, req |-> q, target |-> tg,
      computed |-> c, lprop |-> lp, excl |-> e] :
        k \in {"prop", "link"}, m \in BOOLEAN, q \in BOOLEAN,
        tg \in Scalars \cup TypeNames, c \in BOOLEAN, lp \in BOOLEAN, e \in BOOLEAN}

Next ==
    \/ \E t \in TypeNames, a \in BOOLEAN, b \in TypeNames \cup {"-"} : CreateType(t, a, b)
    \/ \E t \in TypeNames : DropType(t)
    \/ \E t \in TypeNames, a \in BOOLEAN : SetAbstract(t, a)
    \/ \E t \in TypeNames, b \in TypeNames \cup {"-"} : Rebase(t, b)
    \/ \E t \in TypeNames, p \in PtrNames : \E r \in PtrRecs(t) :
          PtrOK(sch, t, r) /\ AddPtr(t, p, r)
    \/ \E t \in TypeNames, p \in PtrNames : DropPtr(t, p)
    \/ \E t \in TypeNames, p \in PtrNames, m \in BOOLEAN : SetMulti(t, p, m)
    \/ \E t \in TypeNames, p \in PtrNames, q \in BOOLEAN : SetRequired(t, p, q)
    \/ \E t \in TypeNames, p \in PtrNames, h \in BOOLEAN : SetLinkProp(t, p, h)
    \/ \E t \in TypeNames, p \in PtrNames, e \in BOOLEAN : SetExclusive(t, p, e)
    \/ \E t \in TypeNames, p \in PtrNames, c \in BOOLEAN : SetComputed(t, p, c)
    \/ \E t, t2 \in TypeNames : RenameType(t, t2)
    \/ \E t \in TypeNames, p, p2 \in PtrNames : RenamePtr(t, p, p2)

\* only steps that change the schema are worth replaying in simulation
Progress == [][last' = "ok"]_vars
Spec == Init /\ [][Next]_vars
\* for simulation: only commands the model accepts (histories of accepted DDL)
SimSpec == Init /\ [][Next /\ last' = "ok"]_vars

-----------------------------------------------------------------------------
WF ==
    /\ \A t \in Live :
         /\ (sch[t].base # "-" => sch[sch[t].base].ex)
         /\ t \notin Ancestors(sch, t)
         /\ \A p \in OwnPtrs(sch, t) :
               /\ PtrOK(sch, t, sch[t].ptrs[p])
               \* no pointer name is declared twice along an inheritance line
               /\ \A o \in Ancestors(sch, t) : ~sch[o].ptrs[p].ex
    /\ \A t \in TypeNames \ Live : sch[t] = NoType

(* expected storage *)
Stored(r) == r.ex /\ ~r.computed
NeedsLinkTable(r) == Stored(r) /\ (r.multi \/ (r.kind = "link" /\ r.lprop))
StorageOf(s) ==
    LET live == {x \in TypeNames : s[x].ex}
        tp == {<<t, o, p>> \in live \X TypeNames \X PtrNames : <<o, p>> \in AllPtrs(s, t)}
    IN {<<"table", t>> : t \in live}
       \cup {<<"column", x[1], x[3]>> : x \in {y \in tp :
                 Stored(s[y[2]].ptrs[y[3]]) /\ ~s[y[2]].ptrs[y[3]].multi}}
       \cup {<<"linktable", x[1], x[3]>> : x \in {y \in tp : NeedsLinkTable(s[y[2]].ptrs[y[3]])}}
       \cup {<<"linkprop", x[1], x[3]>> : x \in {y \in tp :
                 Stored(s[y[2]].ptrs[y[3]]) /\ s[y[2]].ptrs[y[3]].kind = "link"
                 /\ s[y[2]].ptrs[y[3]].lprop}}

EmitOut ==
    Emit => PrintT("OUT " \o ToString(<<hist, last, sch, StorageOf(sch)>>))
=============================================================================
