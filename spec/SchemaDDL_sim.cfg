SPECIFICATION SimSpec
CONSTANTS
    TypeNames = {"A", "B", "C", "D"}
    PtrNames = {"p", "q", "r"}
    MaxLen = 14
    Emit = TRUE
INVARIANT WF
INVARIANT EmitOut
CHECK_DEADLOCK FALSE
