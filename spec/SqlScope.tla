------------------------------ MODULE SqlScope ------------------------------
(***************************************************************************)
(* C13: PostgreSQL's name-resolution rules as a state machine over the     *)
(* linearised SQL tree the compiler emits.                                 *)
(*                                                                         *)
(* harness/c13.py walks the pgast tree of every compiled query in the      *)
(* order PostgreSQL analyses it (WITH list, FROM items left to right, then *)
(* the expression clauses) and writes one event per structural step:       *)
(*     push k     enter a query level; k says how it hangs off its parent: *)
(*                  top | sublink | lateral | nonlateral | cte | arm        *)
(*     pop        leave it                                                 *)
(*     cte n C    the WITH item n (output columns C) is now defined         *)
(*     ctename n  a FROM item names the CTE n                              *)
(*     rvar a C j a FROM item with alias a and columns C joins the current *)
(*                level, inside top-level FROM item number j               *)
(*     ref a c j  an expression refers to column c of range variable a;    *)
(*                j > 0: the expression is the ON condition of join tree j *)
(* The specification keeps the stack of query levels and allows a step     *)
(* only if PostgreSQL would: a reference must resolve to a range variable  *)
(* of the current level or of an enclosing one that is visible through     *)
(* every level boundary on the way -                                       *)
(*   * a sub-link and a LATERAL item see the parent's FROM items entered   *)
(*     so far; a non-LATERAL FROM sub-select, a WITH item and an arm of a  *)
(*     set operation see none of them (enclosing levels stay visible);     *)
(*   * an ON condition sees only the range variables of its own join tree; *)
(*   * the innermost visible range variable of that name must have the     *)
(*     column ("*" = columns not known, e.g. a table);                     *)
(*   * an alias may be entered once per level; a CTE name must be defined  *)
(*     in this or an enclosing WITH list before it is used.                *)
(* A trace TLC cannot extend is a scoping error PostgreSQL would raise.    *)
(***************************************************************************)
EXTENDS Naturals, Sequences, FiniteSets, TLC, Json, IOUtils

Traces == JsonDeserialize(IOEnv.TRACE_FILE)

VARIABLES t, l, stack
vars == <<t, l, stack>>

Frame(k) == [kind |-> k, rvars |-> <<>>, ctes |-> <<>>]
Ev == Traces[t][l]
Top == stack[Len(stack)]
SetTop(f) == [stack EXCEPT ![Len(stack)] = f]

\* range variables of level i visible to a reference made at level n >= i
\* (own level: all entered so far, or those of join tree j for an ON condition)
VisibleRvars(i, n, j) ==
    IF i = n
    THEN {x \in 1..Len(stack[i].rvars) : j = 0 \/ stack[i].rvars[x].j = j}
    ELSE IF stack[i + 1].kind \in {"sublink", "lateral"}
         THEN 1..Len(stack[i].rvars)
         ELSE {}
\* levels that have a visible range variable called a
LevelsWith(a, j) ==
    LET n == Len(stack) IN
    {i \in 1..n : \E x \in VisibleRvars(i, n, j) : stack[i].rvars[x].a = a}
Max(S) == CHOOSE x \in S : \A y \in S : y <= x
Resolves(a, c, j) ==
    LET n == Len(stack)  L == LevelsWith(a, j) IN
    /\ L # {}
    /\ LET i == Max(L) IN
       \E x \in VisibleRvars(i, n, j) :
           /\ stack[i].rvars[x].a = a
           /\ \/ c = "*"                      \* a.* needs only the range variable
              \/ \E k \in 1..Len(stack[i].rvars[x].cols) :
                    stack[i].rvars[x].cols[k] \in {c, "*"}
CTEVisible(nm) ==
    \E i \in 1..Len(stack) : \E x \in 1..Len(stack[i].ctes) : stack[i].ctes[x] = nm

Init == /\ t \in 1..Len(Traces)
        /\ l = 1
        /\ stack = <<Frame("top")>>

Step ==
    /\ l <= Len(Traces[t])
    /\ l' = l + 1
    /\ t' = t
    /\ CASE Ev.e = "push" -> stack' = Append(stack, Frame(Ev.k))
         [] Ev.e = "pop"  -> Len(stack) > 1 /\ stack' = SubSeq(stack, 1, Len(stack) - 1)
         [] Ev.e = "cte"  -> stack' = SetTop([Top EXCEPT !.ctes = Append(@, Ev.a)])
         [] Ev.e = "ctename" -> CTEVisible(Ev.a) /\ stack' = stack
         [] Ev.e = "rvar" ->
              /\ \A x \in 1..Len(Top.rvars) : Top.rvars[x].a # Ev.a
              /\ stack' = SetTop([Top EXCEPT !.rvars =
                                    Append(@, [a |-> Ev.a, cols |-> Ev.cols, j |-> Ev.j])])
         [] Ev.e = "ref" -> Resolves(Ev.a, Ev.c, Ev.j) /\ stack' = stack
         [] OTHER -> FALSE

Done == l = Len(Traces[t]) + 1
\* a trace that cannot be extended before its end is rejected
Stuck == /\ ~Done /\ ~ENABLED Step
         /\ PrintT("REJECT " \o ToString(<<t, l>>))
         /\ UNCHANGED vars
Next == Step \/ Stuck
Spec == Init /\ [][Next]_vars

\* structural sanity of accepted traces: every level entered is left
Balanced == Done => Len(stack) = 1
Report == Done => PrintT("ACCEPT " \o ToString(<<t, Len(stack)>>))
=============================================================================
