SPECIFICATION Spec
CONSTANTS
    Ids = {1, 2, 3}
    Mods = {"m", "n"}
    Locals = {"a", "b"}
    MaxLen = 2
    Emit = TRUE
    Preload = FALSE
INVARIANT RefsInv
INVARIANT NameInv
INVARIANT EmitOut
PROPERTY RejectedIsStutter
CHECK_DEADLOCK FALSE
