import sys, importlib.abc, importlib.machinery, types
missing = []
class Anything:
    def __init__(self, name='?'): self._n = name
    def __getattr__(self, k):
        if k.startswith('__') and k.endswith('__'): raise AttributeError(k)
        return Anything(self._n + '.' + k)
    def __call__(self, *a, **k): return Anything(self._n + '()')
    def __mro_entries__(self, bases): return (object,)
    def __iter__(self): return iter(())
    def __or__(self, o): return self
    def __ror__(self, o): return self
    def __getitem__(self, k): return self
    def __repr__(self): return f'<stub {self._n}>'
class StubModule(types.ModuleType):
    def __getattr__(self, k):
        if k.startswith('__') and k.endswith('__'): raise AttributeError(k)
        return Anything(self.__name__ + '.' + k)
class StubFinder(importlib.abc.MetaPathFinder, importlib.abc.Loader):
    def find_spec(self, name, path, target=None):
        if not (name.startswith('edb.') or name.split('.')[0] in ('graphql',)):
            return None
        missing.append(name)
        return importlib.machinery.ModuleSpec(name, self, is_package=True)
    def create_module(self, spec):
        m = StubModule(spec.name); m.__path__ = []; return m
    def exec_module(self, m): pass
sys.meta_path.append(StubFinder())
