"""Install harness-side stand-ins for the native pieces absent from this
sandbox (see DESIGN.md section 0.2), then make /repo importable.

Nothing here touches /repo.  Importing this module is idempotent.

    import boot                      # parser + uuid + buildmeta + name stubs
    std = boot.std_schema()          # cached std schema (rebuilt on tree change)
    comp = boot.compiler()           # cached (std, refl, layout) -> Compiler
"""
from __future__ import annotations

import hashlib
import os
import pickle
import sys
import time
import types
import uuid

REPO = os.environ.get('VERIF_REPO', '/repo')
HERE = os.path.dirname(os.path.abspath(__file__))
CACHE = os.environ.get(
    'VERIF_CACHE', os.path.join(os.path.dirname(HERE), '.cache'))

if REPO not in sys.path:
    sys.path.insert(0, REPO)
if HERE not in sys.path:
    sys.path.insert(0, HERE)

import parsing  # noqa: E402  (our stand-in for the PyPI package)
import edgeql_parser_shim as _p  # noqa: E402

sys.modules['edb._edgeql_parser'] = _p

_tu = types.ModuleType('edb.common.turbo_uuid')


class UUID(uuid.UUID):
    def __init__(self, inp=None, **kw):
        if kw:
            super().__init__(**kw)
        elif isinstance(inp, uuid.UUID):
            super().__init__(int=inp.int)
        elif isinstance(inp, (bytes, bytearray)) and len(inp) == 16:
            super().__init__(bytes=bytes(inp))
        else:
            super().__init__(inp)


_tu.UUID = UUID
sys.modules['edb.common.turbo_uuid'] = _tu
import edb.common  # noqa: E402

edb.common.turbo_uuid = _tu

_bm = types.ModuleType('edb._buildmeta')
_bm.VERSION = (7, 0, 0, 1, ('dev',))
sys.modules['edb._buildmeta'] = _bm

import autostub  # noqa: E402,F401  (name-only stubs for edb.* / graphql*)

from edb import buildmeta  # noqa: E402

buildmeta._bundled_pg_version = buildmeta.BackendVersion(
    major=17, minor=0, micro=2, releaselevel='final', serial=0,
    string='PostgreSQL 17.2')


def _install_rpc():
    """edb.server.compiler.rpc is Cython: install the plain-Python stand-in
    (lazily importable; it needs edb.server.compiler.enums)."""
    import importlib.abc
    import importlib.util

    class _Finder(importlib.abc.MetaPathFinder):
        def find_spec(self, name, path, target=None):
            if name != 'edb.server.compiler.rpc':
                return None
            return importlib.util.spec_from_file_location(
                name, os.path.join(HERE, 'rpc_shim.py'))
    sys.meta_path.insert(0, _Finder())


_install_rpc()


# ------------------------------------------------------------------ cache
_KEY = None


def tree_key() -> str:
    """SHA-256 over every file that can influence the std schema / compiler."""
    global _KEY
    if _KEY is not None:
        return _KEY
    h = hashlib.sha256()
    roots = [os.path.join(REPO, 'edb')]
    files = []
    for root in roots:
        for dp, dn, fn in os.walk(root):
            dn[:] = [d for d in dn if d not in ('__pycache__', 'node_modules')]
            for f in fn:
                if f.endswith(('.py', '.edgeql', '.rs', '.pyx', '.pxd')):
                    files.append(os.path.join(dp, f))
    for f in os.listdir(HERE):
        if f.endswith('.py'):
            files.append(os.path.join(HERE, f))
    for f in sorted(files):
        h.update(f.encode())
        h.update(b'\0')
        with open(f, 'rb') as fh:
            h.update(fh.read())
        h.update(b'\0')
    _KEY = h.hexdigest()[:24]
    return _KEY


def _cache_path(kind: str) -> str:
    os.makedirs(CACHE, exist_ok=True)
    return os.path.join(CACHE, f'{kind}-{tree_key()}.pickle')


def _prune(kind: str, keep: int = 3) -> None:
    try:
        ents = [os.path.join(CACHE, f) for f in os.listdir(CACHE)
                if f.startswith(kind + '-')]
        ents.sort(key=os.path.getmtime, reverse=True)
        for f in ents[keep:]:
            os.unlink(f)
    except OSError:
        pass


def _atomic_dump(obj, path):
    tmp = f'{path}.{os.getpid()}.tmp'
    with open(tmp, 'wb') as f:
        pickle.dump(obj, f, -1)
    os.replace(tmp, path)


_STD = None
_COMP = None


def build_std():
    from edb.schema import std as s_std
    from edb.schema import schema as s_schema
    schema = s_schema.EMPTY_SCHEMA
    for modname in s_schema.STD_SOURCES + s_schema.TESTMODE_SOURCES:
        schema = s_std.load_std_module(schema, modname)
    schema, _ = s_std.make_schema_version(schema)
    schema, _ = s_std.make_global_schema_version(schema)
    return schema


def std_schema():
    global _STD
    if _STD is not None:
        return _STD
    p = _cache_path('std')
    if os.path.exists(p):
        try:
            with open(p, 'rb') as f:
                _STD = pickle.load(f)
            os.utime(p)
            return _STD
        except Exception:
            pass
    t = time.time()
    _STD = build_std()
    _atomic_dump(_STD, p)
    _prune('std')
    print(f'[shim] std schema built in {time.time()-t:.1f}s', file=sys.stderr)
    return _STD


def compiler():
    """A real edb.server.compiler.Compiler over the cached std schema."""
    global _COMP
    if _COMP is not None:
        return _COMP
    from edb.schema import reflection as s_refl, delta as sd
    from edb.server import compiler as edbcompiler
    std = std_schema()
    p = _cache_path('refl')
    got = None
    if os.path.exists(p):
        try:
            with open(p, 'rb') as f:
                got = pickle.load(f)
            os.utime(p)
        except Exception:
            got = None
    if got is None:
        t = time.time()
        reflection = s_refl.generate_structure(std)
        refl = reflection.intro_schema_delta.apply(
            std, sd.CommandContext(stdmode=True))
        got = (refl, reflection.class_layout)
        _atomic_dump(got, p)
        _prune('refl')
        print(f'[shim] reflection schema built in {time.time()-t:.1f}s',
              file=sys.stderr)
    refl, layout = got
    _COMP = edbcompiler.new_compiler(
        std_schema=std, reflection_schema=refl, schema_class_layout=layout)
    return _COMP


def new_ctx(user_schema=None, modaliases=None, **kw):
    from edb.server import compiler as edbcompiler
    from edb.schema import schema as s_schema
    comp = compiler()
    return edbcompiler.new_compiler_context(
        compiler_state=comp.state,
        user_schema=(user_schema if user_schema is not None
                     else s_schema.EMPTY_SCHEMA),
        modaliases=modaliases or {None: 'default'}, **kw)
