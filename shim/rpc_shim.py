"""Plain-Python stand-in for edb/server/compiler/rpc.pyx (Cython, not built
here).  Same constructor signature, attributes and methods; the wire format
is a pickle (only used between harness and in-process worker)."""
from __future__ import annotations

import copy
import hashlib
import pickle
import uuid

from edb import edgeql
from edb.server import defines
from edb.server.compiler import enums


class SQLParamsSource:
    def __init__(self, types_in_out):
        self.types_in_out = types_in_out

    def cache_key(self):
        return hashlib.blake2b(repr(self.types_in_out).encode()).digest()

    def text(self):
        return '<unknown>'

    def serialize(self):
        return pickle.dumps(self.types_in_out)

    @staticmethod
    def deserialize(data):
        return SQLParamsSource(pickle.loads(data))


class CompilationRequest:
    def __init__(
        self, *, source, protocol_version, schema_version,
        compilation_config_serializer,
        input_language=enums.InputLanguage.EDGEQL,
        output_format=enums.OutputFormat.BINARY,
        input_format=enums.InputFormat.BINARY,
        expect_one=False, implicit_limit=0, inline_typeids=False,
        inline_typenames=False, inline_objectids=True, modaliases=None,
        session_config=None, database_config=None, system_config=None,
        role_name=defines.EDGEDB_SUPERUSER,
        branch_name=defines.EDGEDB_SUPERUSER_DB,
    ):
        self.serializer = compilation_config_serializer
        self.source = source
        self.protocol_version = protocol_version
        self.input_language = input_language
        self.output_format = output_format
        self.input_format = input_format
        self.expect_one = expect_one
        self.implicit_limit = implicit_limit
        self.inline_typeids = inline_typeids
        self.inline_typenames = inline_typenames
        self.inline_objectids = inline_objectids
        self.schema_version = schema_version
        self.modaliases = modaliases
        self.session_config = session_config
        self.database_config = database_config
        self.system_config = system_config
        self.role_name = role_name
        self.branch_name = branch_name
        self.serialized_cache = None
        self.cache_key = None

    def __copy__(self):
        rv = CompilationRequest.__new__(CompilationRequest)
        rv.__dict__.update(self.__dict__)
        return rv

    def _set(self, k, v):
        self.__dict__[k] = v
        self.serialized_cache = None
        self.cache_key = None
        return self

    def set_modaliases(self, value):
        return self._set('modaliases', value)

    def set_session_config(self, value):
        return self._set('session_config', value)

    def set_database_config(self, value):
        return self._set('database_config', value)

    def set_system_config(self, value):
        return self._set('system_config', value)

    def set_schema_version(self, version):
        return self._set('schema_version', version)

    def _fields(self):
        return dict(
            text=self.source.text(),
            protocol_version=self.protocol_version,
            input_language=self.input_language,
            output_format=self.output_format,
            input_format=self.input_format, expect_one=self.expect_one,
            implicit_limit=self.implicit_limit,
            inline_typeids=self.inline_typeids,
            inline_typenames=self.inline_typenames,
            inline_objectids=self.inline_objectids,
            schema_version=self.schema_version, modaliases=self.modaliases,
            session_config=self.session_config,
            database_config=self.database_config,
            system_config=self.system_config, role_name=self.role_name,
            branch_name=self.branch_name)

    def serialize(self):
        if self.serialized_cache is None:
            self.serialized_cache = pickle.dumps(self._fields(), -1)
        return self.serialized_cache

    @classmethod
    def deserialize(cls, data, query_text, compilation_config_serializer):
        f = pickle.loads(data)
        f.pop('text')
        return cls(source=edgeql.Source.from_string(query_text),
                   compilation_config_serializer=compilation_config_serializer,
                   **f)

    def get_cache_key(self):
        if self.cache_key is None:
            h = hashlib.blake2b(digest_size=16)
            h.update(repr(sorted(
                (k, repr(v)) for k, v in self._fields().items())).encode())
            self.cache_key = uuid.UUID(bytes=h.digest())
        return self.cache_key

    def __hash__(self):
        return hash(self.get_cache_key())

    def __eq__(self, other):
        return (isinstance(other, CompilationRequest)
                and self._fields() == other._fields())
