"""Spike: pure-Python stand-in for the native module `edb._edgeql_parser`.

Tokenizer: line-by-line port of edb/edgeql-parser/src/tokenizer.rs +
validation.rs + helpers/{strings,bytes}.rs.  Parser: plain LR(1) driver (no
error recovery: first error is reported) over tables generated from the
repo's own grammar classes by the `parsing` shim.
"""
from __future__ import annotations
import re
import sys
import json
import decimal
import hashlib
import base64
import pickle

KW_SRC = '/repo/edb/edgeql-parser/src/keywords.rs'


def _kwset(src, name):
    m = re.search(name + r'[^=]*=\s*phf_set!\((.*?)\);', src, re.S)
    return frozenset(re.findall(r'"([^"]+)"', m.group(1)))


_src = open(KW_SRC).read()
unreserved_keywords = _kwset(_src, 'UNRESERVED_KEYWORDS')
partial_reserved_keywords = _kwset(_src, 'PARTIAL_RESERVED_KEYWORDS')
future_reserved_keywords = _kwset(_src, 'FUTURE_RESERVED_KEYWORDS')
current_reserved_keywords = _kwset(_src, 'CURRENT_RESERVED_KEYWORDS')
_all_kw = (unreserved_keywords | partial_reserved_keywords
           | future_reserved_keywords | current_reserved_keywords)
MAX_KEYWORD_LENGTH = 16


class SyntaxError(Exception):  # noqa: A001
    pass


class TokErr(Exception):
    def __init__(self, msg, start=0, end=0):
        super().__init__(msg)
        self.msg = msg
        self.start = start
        self.end = end


PROHIBITED = set('\0‪‫‬‭‮⁦⁧⁨⁩')


def check_prohibited(c, escape):
    if c == '\0' and escape:
        raise TokErr('character U+0000 is not allowed')
    if c in PROHIBITED:
        if escape:
            raise TokErr(
                f'character U+{ord(c):04X} is not allowed, '
                f'use escaped form \\u{ord(c):04x}')
        raise TokErr(f'character U+{ord(c):04X} is not allowed')


class OpaqueToken:
    __slots__ = ('kind', 'text', 'value', 'start', 'end')

    def __init__(self, kind, text, value, start, end):
        self.kind = kind      # grammar token name, e.g. 'IDENT', 'SELECT', '+'
        self.text = text
        self.value = value
        self.start = start    # byte offsets (utf-8)
        self.end = end

    def __repr__(self):
        return f'{self.text}[{self.kind}]'

    def __reduce__(self):
        return (OpaqueToken, (self.kind, self.text, self.value,
                              self.start, self.end))


SIMPLE2 = {
    ':': {'=': ':=', ':': '::'},
    '-': {'>': '->', '=': '-='},
    '>': {'=': '>='},
    '<': {'=': '<='},
    '+': {'=': '+=', '+': '++'},
    '/': {'/': '//'},
    '.': {'<': '.<'},
    '*': {'*': '**'},
}
SINGLE = set('=,([]{};%^&|@')


class Tokenizer:
    def __init__(self, s):
        self.buf = s
        self.off = 0          # char offset
        self.dot = False
        self.str_interp_stack = []
        self.open_parens = 0
        self.skip_ws()

    def skip_ws(self):
        buf = self.buf
        n = len(buf)
        i = self.off
        while i < n:
            c = buf[i]
            if c in '﻿\r\t\n ':
                i += 1
                continue
            if c == '#':
                i += 1
                stop = False
                while i < n:
                    c2 = buf[i]
                    if c2 in PROHIBITED:
                        stop = True
                        break
                    i += 1
                    if c2 == '\r' or c2 == '\n':
                        break
                if stop:
                    break
                continue
            break
        self.off = i

    def tokens(self):
        out = []
        while self.off < len(self.buf):
            start = self.off
            try:
                kind, ln = self.peek()
            except TokErr as e:
                e.start = start
                e.end = start
                raise
            if kind == 'STRINTERPSTART':
                self.str_interp_stack.append(
                    (self.buf[self.off], self.open_parens))
            elif kind == 'STRINTERPEND':
                self.str_interp_stack.pop()
            elif kind == '(':
                self.open_parens += 1
            elif kind == ')':
                if self.open_parens > 0:
                    self.open_parens -= 1
            self.off += ln
            self.dot = kind == '.'
            out.append((kind, self.buf[start:self.off], start, self.off))
            self.skip_ws()
        return out

    def peek(self):
        buf = self.buf
        off = self.off
        tail = buf[off:]
        c = tail[0]
        nxt = tail[1] if len(tail) > 1 else ''
        if c in SIMPLE2:
            t = SIMPLE2[c].get(nxt)
            if t:
                return t, 2
            return c, 1
        if c == '?':
            if nxt == '?':
                return '??', 2
            if nxt == '=':
                return '?=', 2
            if nxt == '!':
                if tail[2:3] == '=':
                    return '?!=', 3
                raise TokErr('`?!` is not an operator, did you mean `?!=` ?')
            raise TokErr('Bare `?` is not an operator, '
                         'did you mean `?=` or `??` ?')
        if c == '!':
            if nxt == '=':
                return '!=', 2
            raise TokErr('Bare `!` is not an operator, did you mean `!=`?')
        if c in '"\'':
            return self.parse_string(0, False, False)
        if c == '`':
            i = 1
            n = len(tail)
            while i < n:
                ch = tail[i]
                if ch == '`':
                    if tail[i + 1:i + 2] == '`':
                        i += 2
                        continue
                    val = tail[:i + 1]
                    if val.startswith('`@'):
                        raise TokErr('backtick-quoted name cannot '
                                     'start with char `@`')
                    if val.startswith('`$'):
                        raise TokErr('backtick-quoted name cannot '
                                     'start with char `$`')
                    if '::' in val:
                        raise TokErr('backtick-quoted name cannot '
                                     'contain `::`')
                    if val.startswith('`__') and val.endswith('__`'):
                        raise TokErr('backtick-quoted names surrounded by '
                                     'double underscores are forbidden')
                    if i == 1:
                        raise TokErr('backtick quotes cannot be empty')
                    return 'BACKTICK', i + 1
                check_prohibited(ch, False)
                i += 1
            raise TokErr('unterminated backtick name')
        if c in SINGLE:
            return c, 1
        if c == ')':
            if (self.str_interp_stack
                    and self.str_interp_stack[-1][1] == self.open_parens):
                return self.parse_string_interp_cont(
                    self.str_interp_stack[-1][0])
            return ')', 1
        if c == '_' or c.isalpha():
            i = 1
            n = len(tail)
            while True:
                if i >= n:
                    end = n
                    break
                ch = tail[i]
                if ch in '"\'':
                    prefix = tail[:i]
                    if prefix == 'r':
                        raw, binary = True, False
                    elif prefix == 'b':
                        raw, binary = False, True
                    elif prefix in ('rb', 'br'):
                        raw, binary = True, True
                    else:
                        raise TokErr(
                            f'prefix {json.dumps(prefix)} is not allowed for '
                            f'strings, allowed: `b`, `r`')
                    return self.parse_string(i, raw, binary)
                if ch == '`':
                    raise TokErr(
                        f'prefix {json.dumps(tail[:i])} is not allowed for '
                        f'field names, perhaps missing comma or dot?')
                if ch == '_' or ch.isalnum():
                    i += 1
                    continue
                end = i
                break
            val = tail[:end]
            if len(val.encode()) <= MAX_KEYWORD_LENGTH:
                low = _ascii_lower(val)
                if low in _all_kw:
                    return 'KW:' + low, end
            if val.startswith('__') and val.endswith('__'):
                raise TokErr('identifiers surrounded by double '
                             'underscores are forbidden')
            return 'IDENT', end
        if '0' <= c <= '9':
            if self.dot:
                i = 1
                n = len(tail)
                while i < n:
                    ch = tail[i]
                    if '0' <= ch <= '9':
                        i += 1
                        continue
                    if ch.isalpha():
                        raise TokErr(
                            f'unexpected char {ch!r}, only integers are '
                            f'allowed after dot (for tuple access)')
                    break
                if c == '0' and i > 1:
                    raise TokErr('leading zeros are not allowed in numbers')
                return 'ICONST', i
            return self.parse_number()
        if c == '$':
            return self.parse_dollar(tail)
        if c == '\\':
            if nxt == '(':
                i = 2
                n = len(tail)
                while True:
                    if i >= n:
                        raise TokErr('unclosed \\(name) token')
                    ch = tail[i]
                    if ch == '_' or ch.isalnum():
                        i += 1
                        continue
                    if ch == ')':
                        return 'SUBSTITUTION', i + 1
                    raise TokErr('only alphanumerics are allowed in '
                                 '\\(name) token')
            raise TokErr(f'unexpected character {c!r}')
        raise TokErr(f'unexpected character {c!r}')

    def parse_dollar(self, tail):
        n = len(tail)
        if n < 2:
            raise TokErr('bare $ is not allowed')
        c = tail[1]
        has_letter = False
        if c == '$':
            end = tail.find('$$', 2)
            if end < 0:
                raise TokErr('unterminated string started with $$')
            for ch in tail[2:end]:
                check_prohibited(ch, False)
            return 'SCONST', end + 2
        if c == '`':
            i = 2
            while i < n:
                ch = tail[i]
                if ch == '`':
                    if tail[i + 1:i + 2] == '`':
                        i += 2
                        continue
                    var = tail[:i + 1]
                    if var.startswith('$`@'):
                        raise TokErr('backtick-quoted argument '
                                     'cannot start with char `@`')
                    if '::' in var:
                        raise TokErr('backtick-quoted argument '
                                     'cannot contain `::`')
                    if var.startswith('$`__') and var.endswith('__`'):
                        raise TokErr('backtick-quoted arguments surrounded '
                                     'by double underscores are forbidden')
                    if i == 2:
                        raise TokErr(
                            'backtick-quoted argument cannot be empty')
                    return 'PARAMETER', i + 1
                check_prohibited(ch, False)
                i += 1
            raise TokErr('unterminated backtick argument')
        if '0' <= c <= '9':
            pass
        elif c.isalpha() or c == '_':
            has_letter = True
        else:
            raise TokErr('bare $ is not allowed')
        i = 2
        while True:
            if i >= n:
                end = n
                break
            ch = tail[i]
            if ch == '$':
                msize = i + 1
                marker = tail[:msize]
                if '0' <= marker[1] <= '9':
                    raise TokErr('dollar quote must not start with a digit')
                if not marker.isascii():
                    raise TokErr('dollar quote supports only ascii chars')
                e = tail.find(marker, msize)
                if e < 0:
                    raise TokErr(f'unterminated string started with '
                                 f'{json.dumps(marker)}')
                for d in tail[msize:e]:
                    check_prohibited(d, False)
                return 'SCONST', e + msize
            if '0' <= ch <= '9':
                i += 1
                continue
            if ch.isalpha() or ch == '_':
                has_letter = True
                i += 1
                continue
            end = i
            break
        if has_letter:
            if '0' <= tail[1] <= '9':
                raise TokErr(
                    f'the {json.dumps(tail[:end])} is not a valid argument, '
                    f'either name starting with letter or only digits are '
                    f'expected')
        return 'PARAMETER', end

    def parse_string(self, quote_off, raw, binary):
        s = self.buf
        base = self.off + quote_off
        oq = s[base]
        i = base + 1
        n = len(s)
        if binary:
            while i < n:
                c = s[i]
                if c == '\\' and not raw:
                    if i + 1 < n:
                        i += 2
                        continue
                    break
                if ord(c) > 0x7f:
                    raise TokErr(
                        f'invalid bytes literal: character {c!r} is '
                        f'unexpected, only ascii chars are allowed in '
                        f'bytes literals')
                if c == oq:
                    return 'BCONST', i + 1 - self.off
                i += 1
        else:
            while i < n:
                c = s[i]
                if c == '\\' and not raw:
                    if i + 1 < n:
                        if s[i + 1] == '(':
                            return 'STRINTERPSTART', i + 2 - self.off
                        i += 2
                        continue
                    break
                if c == oq:
                    return 'SCONST', i + 1 - self.off
                check_prohibited(c, True)
                i += 1
        raise TokErr(f'unterminated string, quoted by `{oq}`')

    def parse_string_interp_cont(self, end):
        s = self.buf
        i = self.off + 1
        n = len(s)
        while i < n:
            c = s[i]
            if c == '\\':
                if i + 1 < n:
                    if s[i + 1] == '(':
                        return 'STRINTERPCONT', i + 2 - self.off
                    i += 2
                    continue
                break
            if s.startswith(end, i):
                return 'STRINTERPEND', i + len(end) - self.off
            check_prohibited(c, True)
            i += 1
        raise TokErr(f'unterminated string with interpolations, '
                     f'quoted by `{end}`')

    _num_re = None

    def parse_number(self):
        # Port of the state machine; returns (kind, len)
        s = self.buf
        off = self.off
        n = len(s)
        i = off + 1
        suffix = None
        is_decimal = False
        # integer part
        while True:
            if i >= n:
                bstate, dec_len = 'End', n - off
                break
            c = s[i]
            if '0' <= c <= '9' or c == '_':
                i += 1
                continue
            if c == 'e':
                bstate, dec_len = 'Exponent', i - off
                i += 1
                break
            if c == '.':
                bstate, dec_len = 'Dot', i - off
                i += 1
                break
            if c.isalpha():
                suffix = i - off
                bstate, dec_len = 'Letter', i - off
                i += 1
                break
            bstate, dec_len = 'End', i - off
            break
        if s[off] == '0' and dec_len > 1:
            raise TokErr('unexpected leading zeros are not allowed '
                         'in numbers')
        if bstate == 'End':
            return 'ICONST', dec_len
        if bstate == 'Dot':
            is_decimal = True
            first = True
            while True:
                if i >= n:
                    if first:
                        raise TokErr('expected digit after dot, '
                                     'found end of decimal')
                    return 'FCONST', n - off
                c = s[i]
                if '0' <= c <= '9':
                    i += 1
                    first = False
                    continue
                if c == '_':
                    if first:
                        raise TokErr('expected digit after dot, '
                                     'found underscore')
                    i += 1
                    continue
                if c == 'e':
                    if first:
                        raise TokErr('expected digit after dot, '
                                     'found exponent')
                    bstate = 'Exponent'
                    i += 1
                    break
                if c == '.':
                    raise TokErr('unexpected extra decimal dot in number')
                if c.isalpha():
                    if first:
                        raise TokErr('expected digit after dot, '
                                     'found suffix')
                    suffix = i - off
                    bstate = 'Letter'
                    i += 1
                    break
                if first:
                    raise TokErr('expected digit after dot, '
                                 'found end of decimal')
                return 'FCONST', i - off
        if bstate == 'Exponent':
            c = s[i] if i < n else ''
            if c and '0' <= c <= '9':
                i += 1
            elif c in ('+', '-') and c:
                if c == '-':
                    is_decimal = True
                i += 1
                c2 = s[i] if i < n else ''
                if c2 and '0' <= c2 <= '9':
                    i += 1
                elif c2 == '.':
                    raise TokErr('unexpected extra decimal dot in number')
                else:
                    raise TokErr(
                        'unexpected optional `+` or `-` followed by digits '
                        'must follow `e` in float const')
            else:
                raise TokErr(
                    'unexpected optional `+` or `-` followed by digits '
                    'must follow `e` in float const')
            while True:
                if i >= n:
                    return 'FCONST', n - off
                c = s[i]
                if '0' <= c <= '9' or c == '_':
                    i += 1
                    continue
                if c == '.':
                    raise TokErr('unexpected extra decimal dot in number')
                if c.isalpha():
                    suffix = i - off
                    i += 1
                    break
                return 'FCONST', i - off
        assert suffix is not None
        while i < n and (s[i] == '_' or s[i].isalnum()):
            i += 1
        end = i - off
        suf = s[off + suffix:off + end]
        if suf == 'n':
            return ('NFCONST' if is_decimal else 'NICONST'), end
        raise TokErr(f'suffix {json.dumps(suf[:8])} is invalid for numbers')


def _ascii_lower(s):
    return ''.join(chr(ord(c) + 32) if 'A' <= c <= 'Z' else c for c in s)


# ---------------------------------------------------------------- values
def _unquote_string_inner(s):
    res = []
    i = 0
    n = len(s)
    while i < n:
        c = s[i]
        i += 1
        if c != '\\':
            res.append(c)
            continue
        if i >= n:
            raise ValueError('quoted string cannot end in slash')
        c = s[i]
        i += 1
        if c in '"\\/\'':
            res.append(c)
        elif c == 'b':
            res.append('\x08')
        elif c == 'f':
            res.append('\x0c')
        elif c == 'n':
            res.append('\n')
        elif c == 'r':
            res.append('\r')
        elif c == 't':
            res.append('\t')
        elif c == 'x':
            h = s[i:i + 2]
            if len(h) != 2 or not re.fullmatch(r'[0-9a-fA-F]{2}', h):
                raise ValueError(
                    f"invalid string literal: invalid escape sequence "
                    f"'\\x{h}'")
            code = int(h, 16)
            if code > 0x7f or code == 0:
                raise ValueError(
                    f"invalid string literal: invalid escape sequence "
                    f"'\\x{code:x}' (only non-null ascii allowed)")
            res.append(chr(code))
            i += 2
        elif c in 'uU':
            ln = 4 if c == 'u' else 8
            h = s[i:i + ln]
            ok = len(h) == ln and re.fullmatch(r'[0-9a-fA-F]+', h)
            cp = int(h, 16) if ok else None
            if (cp is None or cp == 0 or cp > 0x10FFFF
                    or 0xD800 <= cp <= 0xDFFF):
                raise ValueError(
                    f"invalid string literal: invalid escape sequence "
                    f"'\\{c}{h}'")
            res.append(chr(cp))
            i += ln
        elif c in '\r\n':
            while i < n and s[i].isspace():
                i += 1
        else:
            raise ValueError(
                f"invalid string literal: invalid escape sequence '\\{c}'")
    return ''.join(res)


def unquote_string(value):
    if value.startswith('r'):
        return value[2:-1]
    if value.startswith('$'):
        j = value.find('$', 1)
        if j < 0:
            raise ValueError('invalid dollar-quoted string')
        msize = j + 1
        return value[msize:len(value) - msize]
    end_trim = 2 if value.endswith('\\(') else 1
    return _unquote_string_inner(value[1:len(value) - end_trim])


def unquote_bytes(value):
    m = re.search(r'[\'"]', value)
    if not m:
        raise ValueError('invalid bytes literal: missing quotes')
    prefix = value[:m.start()]
    if prefix in ('br', 'rb'):
        return value[3:-1].encode('utf-8')
    if prefix != 'b':
        raise ValueError(f'prefix {prefix!r} is not allowed for bytes, '
                         f'allowed: `b`, `rb`')
    s = value[2:-1].encode('utf-8')
    res = bytearray()
    i = 0
    n = len(s)
    while i < n:
        c = s[i]
        i += 1
        if c != 0x5c:
            res.append(c)
            continue
        c = s[i]
        i += 1
        ch = chr(c)
        if ch in '"\\/\'':
            res.append(c)
        elif ch == 'b':
            res.append(8)
        elif ch == 'f':
            res.append(12)
        elif ch == 'n':
            res.append(10)
        elif ch == 'r':
            res.append(13)
        elif ch == 't':
            res.append(9)
        elif ch == 'x':
            h = s[i:i + 2]
            if len(h) != 2 or not re.fullmatch(rb'[0-9a-fA-F]{2}', h):
                raise ValueError(
                    f"invalid bytes literal: invalid escape sequence "
                    f"'\\x{h.decode('latin1')}'")
            res.append(int(h, 16))
            i += 2
        elif ch in '\r\n':
            while i < n and chr(s[i]) in ' \t\n\r\x0c':
                i += 1
        else:
            raise ValueError(
                f"invalid bytes literal: invalid escape sequence '\\{ch}'")
    return bytes(res)


def parse_value(kind, text):
    if kind == 'PARAMETER':
        if text[1:2] == '`':
            return text[2:-1].replace('``', '`')
        return text[1:]
    if kind == 'NFCONST':
        try:
            return decimal.Decimal(text[:-1].replace('_', ''))
        except decimal.InvalidOperation as e:
            raise ValueError(f"can't parse decimal: {e}")
    if kind == 'FCONST':
        t = text.replace('_', '')
        try:
            num = float(t)
        except ValueError as e:
            raise ValueError(f"can't parse std::float64: {e}")
        if num in (float('inf'), float('-inf')):
            raise ValueError('number is out of range for std::float64')
        if num == 0.0:
            mend = len(text)
            for j, ch in enumerate(text):
                if ch in 'eE':
                    mend = j
                    break
            if any(ch not in '0.' for ch in text[:mend]):
                raise ValueError('number is out of range for std::float64')
        return num
    if kind == 'ICONST':
        v = int(text.replace('_', ''))
        if v > 2**64 - 1:
            raise ValueError('error reading int: number too large to fit '
                             'in target type')
        if v >= 2**63:
            v -= 2**64
        return v
    if kind == 'NICONST':
        try:
            d = decimal.Decimal(text[:-1].replace('_', ''))
        except decimal.InvalidOperation as e:
            raise ValueError(f'error reading bigint: {e}')
        if d != d.to_integral_value():
            raise ValueError('number is not integer')
        return int(d)
    if kind == 'BCONST':
        return unquote_bytes(text)
    if kind in ('SCONST', 'STRINTERPSTART', 'STRINTERPEND', 'STRINTERPCONT'):
        return unquote_string(text)
    if kind == 'BACKTICK':
        return text[1:-1].replace('``', '`')
    if kind == 'IDENT' or kind.startswith('KW:'):
        return text
    if kind == 'SUBSTITUTION':
        return text[2:-1]
    return None


MULTI = {
    'named': ('only',),
    'set': ('annotation', 'type'),
    'extension': ('package',),
    'order': ('by',),
}


class ParserResult:
    def __init__(self, out, errors):
        self.out = out
        self.errors = errors

    def pack(self):
        return b'\x00' + pickle.dumps(self.out, -1)


def _byte_offsets(s):
    """char index -> utf8 byte offset (lazy: ascii fast path)"""
    if s.isascii():
        return None
    offs = [0] * (len(s) + 1)
    b = 0
    for i, c in enumerate(s):
        offs[i] = b
        o = ord(c)
        b += 1 if o < 0x80 else 2 if o < 0x800 else 3 if o < 0x10000 else 4
    offs[len(s)] = b
    return offs


def _tokenize_raw(s):
    offs = _byte_offsets(s)

    def bo(i):
        return i if offs is None else offs[i]
    try:
        raw = Tokenizer(s).tokens()
    except TokErr as e:
        return None, (e.msg, (bo(e.start), bo(e.end)), None, None)
    out = []
    i = 0
    n = len(raw)
    while i < n:
        kind, text, st, en = raw[i]
        try:
            value = parse_value(kind, text)
        except ValueError as e:
            return None, (str(e), (bo(st), bo(en)), None, None)
        if kind == 'IDENT' or kind.startswith('KW:'):
            if len(text.encode()) <= MAX_KEYWORD_LENGTH:
                low = _ascii_lower(text)
                if low in MULTI and i + 1 < n:
                    nk, nt, _, nen = raw[i + 1]
                    if nk == 'IDENT' or nk.startswith('KW:'):
                        nl = _ascii_lower(nt)
                        if nl in MULTI[low]:
                            kw = f'{low} {nl}'
                            kind = 'KW:' + kw
                            text = kw
                            value = kw  # parse_value ran before combining
                            value = raw[i][1]
                            en = en  # span stays the first token's
                            i += 1
        if kind == 'BACKTICK':
            kind = 'IDENT'
        out.append(OpaqueToken(kind, text, value, bo(st), bo(en)))
        i += 1
    end = bo(len(s))
    # EOI position = current_pos after trailing whitespace
    out.append(OpaqueToken('EOI', '', None, end, end))
    return out, None


def tokenize(s):
    out, err = _tokenize_raw(s)
    if err is not None:
        return ParserResult(None, [err])
    return ParserResult(out, [])


def unpickle_token(b):
    return pickle.loads(b)


def unpack(serialized):
    if serialized[0] == 0:
        return pickle.loads(serialized[1:])
    raise NotImplementedError('normalized Entry unpack')


def normalize(text):
    raise NotImplementedError('normalize')


# ---------------------------------------------------------------- parser
class Terminal:
    __slots__ = ('text', 'value', 'start', 'end')

    def __init__(self, text, value, start, end):
        self.text, self.value, self.start, self.end = text, value, start, end


class Production:
    __slots__ = ('id', 'args')

    def __init__(self, id, args):
        self.id, self.args = id, args


class CSTNode:
    __slots__ = ('production', 'terminal')

    def __init__(self, production=None, terminal=None):
        self.production, self.terminal = production, terminal


_SPEC = None


def preload_spec(path=None):
    global _SPEC
    if _SPEC is not None:
        return
    from edb.common import parsing as eparsing
    from edb.edgeql.parser.grammar import start as gmod
    spec = eparsing.load_parser_spec(gmod)
    js = json.loads(eparsing.spec_to_json(spec))
    actions = []
    for st in js['actions']:
        d = {}
        for tok, act in st:
            d[_kind_of_token_name(tok)] = act
        actions.append(d)
    goto = [dict(g) for g in js['goto']]
    pid_by_name = {tuple(nm): i for i, nm in enumerate(js['production_names'])}
    for c in spec.conflicts:
        if c[0] != 'R/R':
            raise AssertionError(f'unresolved grammar conflict {c}')
        _, st, tok, p, q = c
        kind = _kind_of_token_name(
            {v._token: k for k, v in eparsing.Token.token_map.items()}.get(tok, tok))
        alts = actions[st][kind].setdefault('Alts', [])
        for prod in (p, q):
            pid = pid_by_name[tuple(prod.qualified.split('.')[-2:])]
            ent = {'Reduce': {'production_id': pid, 'non_term': prod.lhs, 'cnt': len(prod.rhs)}}
            if ent['Reduce'] != actions[st][kind].get('Reduce') and ent not in alts:
                alts.append(ent)
    inlines = dict(js['inlines'])
    prods = eparsing.load_spec_productions(js['production_names'], gmod)
    _SPEC = (actions, goto, inlines, prods, js['start'])


_PUNCT = set('''+ & @ .< } ] ) ?? : , ++ / . ** = // % * :: { [ ( | ^ ; -
?!= >= <= ?= != < > += -> := -='''.split())
_CONST = {'IDENT', 'EOI', '<$>', 'BCONST', 'FCONST', 'ICONST', 'NFCONST',
          'NICONST', 'SCONST', 'STARTBLOCK', 'STARTEXTENSION',
          'STARTFRAGMENT', 'STARTMIGRATION', 'STARTSDLDOCUMENT', 'PARAMETER',
          'PARAMETERANDTYPE', 'SUBSTITUTION', 'STRINTERPSTART',
          'STRINTERPCONT', 'STRINTERPEND'}


def _kind_of_token_name(name):
    if name in _PUNCT:
        return name
    if name == '<$>':
        return 'EOI'
    if name in _CONST:
        return name
    low = name.lower()
    if low.startswith('dunder'):
        low = f'__{low[6:]}__'
    if low not in _all_kw and ' ' not in low:
        # multiword keyword tokens come through token_map as 'named only'
        raise AssertionError(f'unknown keyword {name}')
    return 'KW:' + low


def parse(start_token_name, tokens):
    preload_spec()
    actions, goto, inlines, prods, start = _SPEC
    toks = [OpaqueToken(start_token_name, '', None, 0, 0)] + list(tokens)
    end = toks[-1].end
    toks.append(OpaqueToken('EOI', '', None, end, end))
    ntoks = len(toks)
    # each pending configuration: (pos, states, values, forced_action)
    work = [(0, [0], [None], None)]
    best_err = None
    while work:
        pos, states, values, forced = work.pop()
        failed = False
        while pos < ntoks and not failed:
            tok = toks[pos]
            kind = tok.kind
            while True:
                if forced is not None:
                    act, forced = forced, None
                else:
                    act = actions[states[-1]].get(kind)
                    if act is not None and 'Alts' in act:
                        for alt in act['Alts']:
                            work.append((pos, list(states), list(values), alt))
                if act is None:
                    if best_err is None or tok.start >= best_err[1][0]:
                        best_err = (f'Unexpected {_describe(tok)}',
                                    (tok.start, tok.end), None, None)
                    failed = True
                    break
                if 'Shift' in act:
                    states.append(act['Shift'])
                    values.append(CSTNode(terminal=Terminal(
                        tok.text, tok.value, tok.start, tok.end)))
                    pos += 1
                    break
                red = act['Reduce']
                cnt = red['cnt']
                if cnt:
                    args = values[-cnt:]
                    del values[-cnt:]
                    del states[-cnt:]
                else:
                    args = []
                pid = red['production_id']
                if pid in inlines:
                    node = args[inlines[pid]]
                else:
                    node = CSTNode(production=Production(pid, args))
                nt = red['non_term']
                if nt == '<S>':
                    return ParserResult(args[0], []), prods
                states.append(goto[states[-1]][nt])
                values.append(node)
    return ParserResult(None, [best_err]), prods


def _describe(tok):
    if tok.kind == 'EOI':
        return 'end of input'
    if tok.kind.startswith('KW:'):
        return f"keyword '{tok.text.upper()}'"
    return f"'{tok.text}'"


def save_spec(spec_json, dst):
    raise NotImplementedError


class Hasher:
    def __init__(self, h):
        self._h = h

    @staticmethod
    def start_migration(parent_id):
        h = hashlib.sha256()
        h.update(b'CREATE\0MIGRATION\0ONTO\0')
        h.update(parent_id.encode())
        h.update(b'\0{\0')
        return Hasher(h)

    def add_source(self, data):
        toks, err = _tokenize_raw(data)
        if err:
            raise SyntaxError(err[0])
        for t in toks[:-1]:
            self._h.update(t.text.encode())
            self._h.update(b'\0')

    def make_migration_id(self):
        h = self._h.copy()
        h.update(b'}\0')
        d = h.digest()
        return 'm1' + base64.b32encode(d).decode().lower().rstrip('=')


class SourcePoint:
    def __init__(self, line, zero_based_line, column, utf16column, offset,
                 char_offset):
        self.line = line
        self.zero_based_line = zero_based_line
        self.column = column
        self.utf16column = utf16column
        self.offset = offset
        self.char_offset = char_offset

    @staticmethod
    def from_offsets(data, offsets):
        text = data.decode('utf-8')
        out = []
        for off in offsets:
            pre = data[:off].decode('utf-8', 'ignore')
            line0 = pre.count('\n')
            last_nl = pre.rfind('\n')
            col = len(pre) - (last_nl + 1)
            u16 = len(pre[last_nl + 1:].encode('utf-16-le')) // 2
            out.append(SourcePoint(line0 + 1, line0, col + 1, u16, off,
                                   len(pre)))
        return out

    @staticmethod
    def from_lsp_positions(data, positions):
        raise NotImplementedError


def offset_of_line(text, target):
    cur = 0
    off = 0
    for line in text.splitlines(keepends=True):
        if cur == target:
            return off
        off += len(line.encode('utf-8'))
        cur += 1
    if cur == target:
        return off
    raise ValueError('line number is too large')


class Entry:
    pass
