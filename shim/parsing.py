"""Spike: minimal stand-in for the PyPI `parsing` package (not installed here).

Provides Token / Nonterm / Precedence base classes and a Spec that builds
LALR(1) tables with yacc-style precedence resolution from the %-docstrings.
"""
from __future__ import annotations
import re
import sys
import time
import types
from collections import defaultdict


class Precedence:
    pass


class Symbol:
    pass


class Token(Symbol):
    def __init__(self, parser=None):
        pass


class Nonterm(Symbol):
    def __init__(self, parser=None):
        pass


class SpecError(Exception):
    pass


class Prec:
    def __init__(self, name, assoc, rels):
        self.name = name
        self.assoc = assoc
        self.rels = rels  # list of (op, othername)
        self.level = None


class Production:
    def __init__(self, lhs, rhs, prec, method, qualified, idx):
        self.lhs = lhs
        self.rhs = rhs
        self.prec = prec
        self.method = method
        self.qualified = qualified
        self.idx = idx

    def __repr__(self):
        return f'{self.lhs} ::= {" ".join(self.rhs)}'


class ShiftAction:
    def __init__(self, nextState):
        self.nextState = nextState


class ReduceAction:
    def __init__(self, production):
        self.production = production


import os
DEFAULT_PREC = os.environ.get('DEFAULT_PREC', 'last')
EOI = '<$>'
EPS = '<e>'


class Spec:
    pureLR = True

    def __init__(self, mod, skinny=True, logFile=None, verbose=False, **kw):
        self.verbose = verbose
        self._collect(mod)
        self._build()

    # ------------------------------------------------------------------
    def _collect(self, mod):
        precs = {}
        tokens = {}      # name -> prec name|None
        nonterms = {}    # name -> class
        start = None
        prods = []
        precs['none'] = Prec('none', 'fail', [])
        precs['split'] = Prec('split', 'split', [])
        seen = set()
        for name, obj in list(mod.__dict__.items()):
            if not isinstance(obj, type) or id(obj) in seen:
                continue
            seen.add(id(obj))
            doc = obj.__dict__.get('__doc__')
            if not isinstance(doc, str):
                continue
            toks = doc.split()
            if not toks:
                continue
            if issubclass(obj, Precedence) and toks[0] in (
                    '%fail', '%nonassoc', '%left', '%right', '%split'):
                pname = obj.__name__
                rels = []
                for t in toks[1:]:
                    m = re.fullmatch(r'([<>=])([A-Za-z_]\w*)', t)
                    if not m:
                        raise SpecError(f'bad precedence doc {doc!r}')
                    rels.append((m.group(1), m.group(2)))
                precs[pname] = Prec(pname, toks[0][1:], rels)
            elif issubclass(obj, Token) and toks[0] == '%token':
                tname = toks[1] if len(toks) > 1 and not toks[1].startswith('[') else obj.__name__
                m = re.search(r'\[(\w+)\]', doc)
                tokens[tname] = (m.group(1) if m else None, obj)
            elif issubclass(obj, Nonterm) and toks[0] in ('%start', '%nonterm'):
                nname = obj.__name__
                if len(toks) > 1 and not toks[1].startswith('['):
                    nname = toks[1]
                m = re.search(r'\[(\w+)\]', doc)
                nonterms[nname] = (obj, m.group(1) if m else None)
                if toks[0] == '%start':
                    start = nname
        self._precs = precs
        self._tokens = tokens
        self._nonterms = nonterms
        if start is None:
            raise SpecError('no %start')
        self._start = start
        # productions
        for nname, (cls, nprec) in nonterms.items():
            for k, v in cls.__dict__.items():
                if not isinstance(v, types.FunctionType):
                    continue
                d = v.__doc__
                if not isinstance(d, str):
                    continue
                d = d.replace('\\\n', ' ')
                toks = d.split()
                if not toks or toks[0] != '%reduce':
                    continue
                rhs = []
                prec = None
                for t in toks[1:]:
                    m = re.fullmatch(r'\[(\w+)\]', t)
                    if m:
                        prec = m.group(1)
                    elif t == EPS:
                        pass
                    else:
                        rhs.append(t)
                if prec is None:
                    prec = nprec
                if prec is None and DEFAULT_PREC:
                    cands = [tokens[t][0] for t in rhs if t in tokens and tokens[t][0]]
                    if cands:
                        prec = cands[-1] if DEFAULT_PREC == 'last' else cands[0]
                prods.append(Production(
                    nname, tuple(rhs), prec, v,
                    f'{cls.__module__}.{cls.__name__}.{k}', len(prods)))
        self._prods = prods
        # precedence levels: union-find on '=' then DAG longest path
        self._resolve_precs()

    def _resolve_precs(self):
        precs = self._precs
        parent = {n: n for n in precs}

        def find(x):
            while parent[x] != x:
                parent[x] = parent[parent[x]]
                x = parent[x]
            return x
        for p in precs.values():
            for op, o in p.rels:
                if op == '=':
                    parent[find(p.name)] = find(o)
        gt = defaultdict(set)  # a -> set of b with a > b
        for p in precs.values():
            for op, o in p.rels:
                if op == '>':
                    gt[find(p.name)].add(find(o))
                elif op == '<':
                    gt[find(o)].add(find(p.name))
        # transitive closure
        memo = {}

        def below(a):
            if a in memo:
                return memo[a]
            memo[a] = set()
            r = set()
            for b in gt[a]:
                r.add(b)
                r |= below(b)
            memo[a] = r
            return r
        self._prec_rep = {n: find(n) for n in precs}
        self._prec_below = {find(n): below(find(n)) for n in precs}

    def _cmp_prec(self, a, b):
        """return '>' '<' '=' or None for precedence names a vs b"""
        ra, rb = self._prec_rep[a], self._prec_rep[b]
        if ra == rb:
            return '='
        if rb in self._prec_below[ra]:
            return '>'
        if ra in self._prec_below[rb]:
            return '<'
        return None

    # ------------------------------------------------------------------
    def _build(self):
        t0 = time.time()
        prods = self._prods
        tokens = self._tokens
        nonterms = set(self._nonterms)
        # sanity
        for p in prods:
            for s in p.rhs:
                if s not in tokens and s not in nonterms:
                    raise SpecError(f'unknown symbol {s} in {p}')
        START = '<S>'
        aug = Production(START, (self._start,), None, None, '<S>.<S>', -1)
        by_lhs = defaultdict(list)
        for p in prods:
            by_lhs[p.lhs].append(p)
        by_lhs[START] = [aug]
        self._aug = aug

        # nullable / first
        nullable = set()
        changed = True
        while changed:
            changed = False
            for p in prods:
                if p.lhs not in nullable and all(s in nullable for s in p.rhs):
                    nullable.add(p.lhs)
                    changed = True
        self._nullable = nullable

        # LR(0) automaton: states are frozensets of kernel items (prod, dot)
        def closure(kernel):
            items = list(kernel)
            seen = set(kernel)
            added_nt = set()
            i = 0
            while i < len(items):
                p, d = items[i]
                i += 1
                if d < len(p.rhs):
                    s = p.rhs[d]
                    if s in nonterms and s not in added_nt:
                        added_nt.add(s)
                        for q in by_lhs[s]:
                            it = (q, 0)
                            if it not in seen:
                                seen.add(it)
                                items.append(it)
            return items

        k0 = frozenset([(aug, 0)])
        states = [k0]
        index = {k0: 0}
        trans = []  # per state: dict sym -> state
        closures = []
        i = 0
        while i < len(states):
            items = closure(states[i])
            closures.append(items)
            goto = defaultdict(list)
            for p, d in items:
                if d < len(p.rhs):
                    goto[p.rhs[d]].append((p, d + 1))
            tr = {}
            for s, ker in goto.items():
                fk = frozenset(ker)
                j = index.get(fk)
                if j is None:
                    j = len(states)
                    index[fk] = j
                    states.append(fk)
                tr[s] = j
            trans.append(tr)
            i += 1
        nstates = len(states)
        t1 = time.time()

        # DeRemer-Pennello LALR(1) lookaheads
        # nonterminal transitions
        nt_trans = []
        nt_index = {}
        for s in range(nstates):
            for sym in trans[s]:
                if sym in nonterms or sym == self._start:
                    if sym in nonterms:
                        nt_index[(s, sym)] = len(nt_trans)
                        nt_trans.append((s, sym))
        n = len(nt_trans)
        DR = [set() for _ in range(n)]
        reads = [[] for _ in range(n)]
        for i, (p, A) in enumerate(nt_trans):
            r = trans[p][A]
            for sym in trans[r]:
                if sym in tokens:
                    DR[i].add(sym)
                elif sym in nullable:
                    reads[i].append(nt_index[(r, sym)])
            if p == 0 and A == self._start:
                DR[i].add(EOI)

        def digraph(rel, F0):
            N = [0] * n
            F = [set(x) for x in F0]
            stack = []
            INF = float('inf')

            def traverse(x):
                # iterative version
                call = [(x, iter(rel[x]))]
                stack.append(x)
                d = len(stack)
                N[x] = d
                depth = {x: d}
                while call:
                    node, it = call[-1]
                    adv = False
                    for y in it:
                        if N[y] == 0:
                            stack.append(y)
                            N[y] = len(stack)
                            depth[y] = len(stack)
                            call.append((y, iter(rel[y])))
                            adv = True
                            break
                        N[node] = min(N[node], N[y])
                        F[node] |= F[y]
                    if adv:
                        continue
                    call.pop()
                    if call:
                        par = call[-1][0]
                        N[par] = min(N[par], N[node])
                        F[par] |= F[node]
                    if N[node] == depth[node]:
                        while True:
                            top = stack.pop()
                            N[top] = INF
                            if top == node:
                                break
                            F[top] = F[node]
            for x in range(n):
                if N[x] == 0:
                    traverse(x)
            return F

        Read = digraph(reads, DR)
        # includes & lookback
        includes = [[] for _ in range(n)]
        lookback = defaultdict(list)  # (state, prod) -> [nt transition idx]
        for i, (p, A) in enumerate(nt_trans):
            for prod in by_lhs[A]:
                q = p
                for k, sym in enumerate(prod.rhs):
                    if sym in nonterms:
                        # (q, sym) includes (p, A) if rest nullable
                        if all(s in nullable for s in prod.rhs[k + 1:]):
                            includes[nt_index[(q, sym)]].append(i)
                    q = trans[q][sym]
                lookback[(q, prod)].append(i)
        Follow = digraph(includes, Read)
        t2 = time.time()

        # build tables
        tok_prec = {t: pr for t, (pr, _) in tokens.items()}
        self._action = []
        self._goto = []
        self.conflicts = []
        for s in range(nstates):
            act = {}
            for sym, j in trans[s].items():
                if sym in tokens:
                    act[sym] = ShiftAction(j)
            gt = {sym: j for sym, j in trans[s].items() if sym in nonterms}
            for p, d in closures[s]:
                if d == len(p.rhs):
                    if p is aug:
                        la = {EOI}
                    else:
                        la = set()
                        for i in lookback[(s, p)]:
                            la |= Follow[i]
                    for t in la:
                        self._add_reduce(s, act, t, p, tok_prec)
            self._action.append(act)
            self._goto.append(gt)
        t3 = time.time()
        if self.verbose:
            print(f'[parsing-shim] {len(prods)} prods, {nstates} states, '
                  f'{n} nt-trans; lr0 {t1-t0:.1f}s la {t2-t1:.1f}s '
                  f'tables {t3-t2:.1f}s; unresolved conflicts: '
                  f'{len(self.conflicts)}', file=sys.stderr)

    def _add_reduce(self, s, act, t, p, tok_prec):
        cur = act.get(t)
        if cur is None:
            act[t] = ReduceAction(p)
            return
        if cur == 'error':
            return
        if isinstance(cur, ShiftAction):
            pp = p.prec or 'none'
            tp = (tok_prec.get(t) or 'none') if t != EOI else 'none'
            c = self._cmp_prec(pp, tp) if pp != 'none' and tp != 'none' else None
            if c == '>':
                act[t] = ReduceAction(p)
            elif c == '<':
                pass
            elif c == '=':
                assoc = self._precs[self._prec_rep[pp]].assoc
                # all precs in an '=' class should share assoc; use prod's
                assoc = self._precs[pp].assoc
                if assoc == 'left':
                    act[t] = ReduceAction(p)
                elif assoc == 'right':
                    pass
                elif assoc == 'nonassoc':
                    act[t] = 'error'
                else:
                    self.conflicts.append(('S/R-fail', s, t, p))
            else:
                self.conflicts.append(('S/R', s, t, p))
        else:
            q = cur.production
            if q is p:
                return
            pp, qp = p.prec or 'none', q.prec or 'none'
            c = self._cmp_prec(pp, qp) if pp != 'none' and qp != 'none' else None
            if c == '>':
                act[t] = ReduceAction(p)
            elif c == '<':
                pass
            else:
                self.conflicts.append(('R/R', s, t, p, q))

    # API used by edb.common.parsing.spec_to_json
    def actions(self):
        out = []
        for act in self._action:
            out.append({t: [a] for t, a in act.items() if a != 'error'})
        return out

    def goto(self):
        return self._goto

    def start_sym(self):
        return self._start
