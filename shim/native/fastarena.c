/* Caching arena allocator for CPython (harness-side performance aid only).
 *
 * CPython 3.12 allocates and frees its 16 KiB frame "data stack chunks" with
 * mmap/munmap every time the call depth crosses a chunk boundary; the deeply
 * recursive EdgeQL compiler does that ~10^5 times per second, and in this
 * sandbox every such pair costs a page-table round trip that serialises all
 * processes.  This allocator keeps freed 16 KiB / 1 MiB blocks on free lists.
 * It changes nothing observable about the interpreter. */
#define _GNU_SOURCE
#include <stddef.h>
#include <sys/mman.h>
#include <dlfcn.h>

typedef struct {
    void *ctx;
    void *(*alloc)(void *ctx, size_t size);
    void (*free)(void *ctx, void *ptr, size_t size);
} ArenaAllocator;

#define NCLASS 2
static const size_t klass[NCLASS] = {16384, 1048576};
static void *freelist[NCLASS];
static int nfree[NCLASS];
static const int maxfree[NCLASS] = {4096, 64};

static void *fa_alloc(void *ctx, size_t size) {
    for (int k = 0; k < NCLASS; k++) {
        if (size == klass[k] && freelist[k]) {
            void *p = freelist[k];
            freelist[k] = *(void **)p;
            nfree[k]--;
            /* callers expect zero-filled memory only from fresh mmap for the
               first word they read; CPython initialises chunks itself */
            *(void **)p = 0;
            return p;
        }
    }
    void *p = mmap(NULL, size, PROT_READ | PROT_WRITE,
                   MAP_PRIVATE | MAP_ANONYMOUS, -1, 0);
    return p == MAP_FAILED ? NULL : p;
}

static void fa_free(void *ctx, void *ptr, size_t size) {
    for (int k = 0; k < NCLASS; k++) {
        if (size == klass[k] && nfree[k] < maxfree[k]) {
            *(void **)ptr = freelist[k];
            freelist[k] = ptr;
            nfree[k]++;
            return;
        }
    }
    munmap(ptr, size);
}

int fastarena_install(void) {
    void (*set)(ArenaAllocator *) =
        (void (*)(ArenaAllocator *))dlsym(RTLD_DEFAULT, "PyObject_SetArenaAllocator");
    if (!set) return -1;
    static ArenaAllocator a = {0, fa_alloc, fa_free};
    set(&a);
    return 0;
}
